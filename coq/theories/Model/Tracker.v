(* L0: sequential abstract model of the positional SORT trackers
     Sort       /repo/src/trackers/sort/simple_api.rs   (predict_with_scene, idle_tracks_with_scene)
     BatchSort  /repo/src/trackers/sort/batch_api.rs    (used synchronously; see [batch_step])
     together with SortAttributes (sort.rs: compatible / merge / baked / update_history), the generic
     TrackerAPI (tracker_api.rs: auto_waste, wasted, clear_wasted, stats, skip_epochs, set_auto_waste) and
     EpochDb (epoch_db.rs).   Properties C01, C03, C04 and the tracker half of C20.

   Hand-written; tied to the code by the exact correspondence in tools/props/tracker_common.py (harness bin
   `tracker`).  Everything floating point is an ORACLE (DESIGN.md 2.2):
     G   : candidate detection -> (detections absorbed by a track) -> option Z
           the weight (w * 1e6) as i64 that reaches SortVoting for the pair, None if no ObservationMetricOk
           reaches it (too_far, or the IoU gate in SortMetric::metric + postprocess_distances);
     D2R : candidate detection -> (detections absorbed by a track) -> Q
           Universal2DBox::dist_in_2r(candidate's predicted box, track's last predicted box).
   The assignment step (SortVoting::winners = padded matrix + kuhn_munkres) is behind the small interface
   [solver] / [solver_sound]; an executable default [best_matching] is given at the end.
   Everything decided with integers - same scene, epoch gap <= max_idle, the constraint table, expiry, which
   pairs reach the voting, id issuing, history truncation, auto-waste - is decided here. *)
From Coq Require Import List NArith ZArith QArith Bool Lia.
From Similari Require Import Base.Num Model.Constraints.
From SimilariGen Require Import Consts ScalarGate ScalarTracker.
Import ListNotations.
Open Scope N_scope.

(* ------------------------------------------------------------------------------------------------ *)
(* Data *)

(* A submitted detection: an opaque unique token (it stands for the observed box) and the custom object id. *)
Record detection := { d_uid : N; d_custom : option Z }.

Record cfg := {
  max_idle : N;                 (* SortAttributesOptions.max_idle_epochs *)
  hist_len : N;                 (* SortAttributesOptions.history_length (bbox_history; the constructor asserts > 0) *)
  shards   : N;                 (* number of store shards (only the statistics see it) *)
  thr      : Z;                 (* SortVoting threshold: (t * 1e6) as i64, t = IoU threshold or 1.0 for Mahalanobis *)
  table    : Constraints.table  (* SpatioTemporalConstraints *)
}.

(* A stored track = Track<SortAttributes, ..> .  Box histories are lists of tokens (uid of the detection
   whose absorption pushed the box).  [g_dets] is ghost: all detections ever absorbed, oldest first. *)
Record trk := {
  t_id : N; t_scene : N; t_last : N; t_len : N; t_custom : option Z;
  t_obs : list N; t_pred : list N; g_dets : list N
}.

(* SortTrack as returned by predict / idle_tracks.  [r_name] is ghost: the run-independent name of the
   track (uid of its first detection, DESIGN.md 2.2). *)
Record rec := {
  r_id : N; r_epoch : N; r_scene : N; r_len : N; r_custom : option Z; r_obs : N; r_pred : N; r_name : N
}.

Record tstate := {
  epochs : list (N * N);        (* EpochDb: scene -> epoch; an absent scene reads as 0 *)
  live : list trk;              (* main store (a map id -> track; kept in insertion order) *)
  wasted : list trk;            (* wasted store (kept sorted by id: canonical form of the map) *)
  next_id : N;                  (* Sort.track_id *)
  aw_cnt : N; aw_per : N;       (* AutoWaste.counter / .periodicity *)
  g_delivered : list trk;       (* ghost: tracks handed out by wasted() so far, in order *)
  g_cleared : list trk;         (* ghost: tracks discarded by clear_wasted() *)
  g_submitted : list N          (* ghost: uids of all detections submitted so far *)
}.

Inductive top :=
| Predict (scene : N) (dets : list detection)
| Skip (scene n : N)
| Wasted
| Idle (scene : N)
| ClearWasted
| SetAutoWaste (p : N)
| ActiveStats
| WastedStats
| CurrentEpoch (scene : N).

Inductive tout :=
| ORecords (l : list rec)
| OWasted (l : list trk)
| OIdle (l : list rec)
| OStats (l : list N)
| OEpoch (e : N)
| OUnit.

(* record updates *)
Definition set_epochs (st : tstate) (e : list (N * N)) : tstate :=
  {| epochs := e; live := live st; wasted := wasted st; next_id := next_id st; aw_cnt := aw_cnt st;
     aw_per := aw_per st; g_delivered := g_delivered st; g_cleared := g_cleared st; g_submitted := g_submitted st |}.
Definition set_live (st : tstate) (l : list trk) : tstate :=
  {| epochs := epochs st; live := l; wasted := wasted st; next_id := next_id st; aw_cnt := aw_cnt st;
     aw_per := aw_per st; g_delivered := g_delivered st; g_cleared := g_cleared st; g_submitted := g_submitted st |}.
Definition set_wasted (st : tstate) (l : list trk) : tstate :=
  {| epochs := epochs st; live := live st; wasted := l; next_id := next_id st; aw_cnt := aw_cnt st;
     aw_per := aw_per st; g_delivered := g_delivered st; g_cleared := g_cleared st; g_submitted := g_submitted st |}.
Definition set_next_id (st : tstate) (n : N) : tstate :=
  {| epochs := epochs st; live := live st; wasted := wasted st; next_id := n; aw_cnt := aw_cnt st;
     aw_per := aw_per st; g_delivered := g_delivered st; g_cleared := g_cleared st; g_submitted := g_submitted st |}.
Definition set_aw (st : tstate) (cnt per : N) : tstate :=
  {| epochs := epochs st; live := live st; wasted := wasted st; next_id := next_id st; aw_cnt := cnt;
     aw_per := per; g_delivered := g_delivered st; g_cleared := g_cleared st; g_submitted := g_submitted st |}.
Definition set_delivered (st : tstate) (l : list trk) : tstate :=
  {| epochs := epochs st; live := live st; wasted := wasted st; next_id := next_id st; aw_cnt := aw_cnt st;
     aw_per := aw_per st; g_delivered := l; g_cleared := g_cleared st; g_submitted := g_submitted st |}.
Definition set_cleared (st : tstate) (l : list trk) : tstate :=
  {| epochs := epochs st; live := live st; wasted := wasted st; next_id := next_id st; aw_cnt := aw_cnt st;
     aw_per := aw_per st; g_delivered := g_delivered st; g_cleared := l; g_submitted := g_submitted st |}.
Definition set_submitted (st : tstate) (l : list N) : tstate :=
  {| epochs := epochs st; live := live st; wasted := wasted st; next_id := next_id st; aw_cnt := aw_cnt st;
     aw_per := aw_per st; g_delivered := g_delivered st; g_cleared := g_cleared st; g_submitted := l |}.

(* Sort::new / BatchSort::new: empty stores, counter = periodicity = DEFAULT_AUTO_WASTE_PERIODICITY *)
Definition init : tstate :=
  {| epochs := []; live := []; wasted := []; next_id := 0;
     aw_cnt := DEFAULT_AUTO_WASTE_PERIODICITY; aw_per := DEFAULT_AUTO_WASTE_PERIODICITY;
     g_delivered := []; g_cleared := []; g_submitted := [] |}.

(* ------------------------------------------------------------------------------------------------ *)
(* EpochDb *)

Fixpoint epoch_of (e : list (N * N)) (s : N) : N :=
  match e with
  | [] => 0
  | (k, v) :: r => if k =? s then v else epoch_of r s
  end.

Fixpoint set_epoch (e : list (N * N)) (s v : N) : list (N * N) :=
  match e with
  | [] => [(s, v)]
  | (k, x) :: r => if k =? s then (k, v) :: r else (k, x) :: set_epoch r s v
  end.

(* EpochDb::baked: TrackStatus::Wasted iff the comparison TRANSLATED from the Rust source on every run
   (gen/ScalarGate.v: baked_wasted_cmp last_updated max_idle current_epoch.get(scene)) holds; an absent scene
   reads as epoch 0 on both sides.  Proofs use it only through GateProofs.baked_wasted_cmp_spec
   (TrackerBase.expired_ltb), so a change of the Rust comparison changes this model and breaks the proofs. *)
Definition expired (c : cfg) (e : list (N * N)) (t : trk) : bool :=
  baked_wasted_cmp Qops (t_last t) (max_idle c) (Some (epoch_of e (t_scene t))).

(* ------------------------------------------------------------------------------------------------ *)
(* stores *)

(* insertion into the id-sorted wasted store (add_track; ids are distinct by [one_place]) *)
Fixpoint ins (t : trk) (l : list trk) : list trk :=
  match l with
  | [] => [t]
  | x :: r => if t_id t <=? t_id x then t :: l else x :: ins t r
  end.

Definition ins_all (ts l : list trk) : list trk := fold_left (fun acc t => ins t acc) ts l.

(* TrackerAPI::auto_waste: find_usable on the main store, the Wasted ones are fetched (removed) and
   added to the wasted store *)
Definition auto_waste (c : cfg) (st : tstate) : tstate :=
  let ex := filter (expired c (epochs st)) (live st) in
  set_wasted (set_live st (filter (fun t => negb (expired c (epochs st) t)) (live st))) (ins_all ex (wasted st)).

(* the prologue of predict.  The counter test and update are the ones TRANSLATED from the Rust source on every run
   (gen/ScalarTracker.v: auto_waste_prologue_sort for Sort::predict_with_scene, auto_waste_prologue_batch_sort for
   BatchSort::predict): (counter, periodicity) |-> (collect now?, new counter).  Proofs use them only through
   TrackerScalarProofs.auto_waste_prologue_spec (TrackerBase.prologue_eq). *)
Definition prologue_with (f : N -> N -> bool * N) (c : cfg) (st : tstate) : tstate :=
  let '(collect, cnt') := f (aw_cnt st) (aw_per st) in
  if collect then set_aw (auto_waste c st) cnt' (aw_per st) else set_aw st cnt' (aw_per st).

Definition prologue (c : cfg) (st : tstate) : tstate := prologue_with (auto_waste_prologue_sort Qops) c st.
Definition prologue_batch (c : cfg) (st : tstate) : tstate := prologue_with (auto_waste_prologue_batch_sort Qops) c st.
(* VisualSort::predict_with_scene / BatchVisualSort::predict have their own (translated) copies of the prologue *)
Definition prologue_visual (c : cfg) (st : tstate) : tstate := prologue_with (auto_waste_prologue_visual Qops) c st.
Definition prologue_batch_visual (c : cfg) (st : tstate) : tstate := prologue_with (auto_waste_prologue_batch_visual Qops) c st.

(* EpochDb::next_epoch *)
Definition next_epoch (st : tstate) (scene : N) : N * tstate :=
  let e := epoch_of (epochs st) scene + 1 in (e, set_epochs st (set_epoch (epochs st) scene e)).

(* ------------------------------------------------------------------------------------------------ *)
(* SortAttributes *)

Definition absdiff (a b : N) : N := if a <=? b then b - a else a - b.

(* first two conjuncts of SortAttributes::compatible: same scene, |epoch gap| <= max_idle *)
Definition relevant (c : cfg) (scene epoch : N) (t : trk) : bool :=
  (t_scene t =? scene) && (absdiff epoch (t_last t) <=? max_idle c).

(* third conjunct: spatio_temporal_constraints.validate(epoch_delta, dist_in_2r) (a negative distance
   would panic in the code; dist_in_2r is never negative) *)
Definition constraint_ok (c : cfg) (gap : N) (dist : Q) : bool :=
  match validate (table c) gap dist with Some true => true | _ => false end.

(* update_history: pop_front once when history_length > 0 and the length exceeds it *)
Definition trunc (h : N) (l : list N) : list N :=
  if (0 <? h) && (h <? N.of_nat (length l)) then tl l else l.

(* a candidate that starts a new track (TrackBuilder + add_track after set_track_id) *)
Definition fresh_track (c : cfg) (id scene epoch : N) (d : detection) : trk :=
  {| t_id := id; t_scene := scene; t_last := epoch; t_len := 1; t_custom := d_custom d;
     t_obs := trunc (hist_len c) [d_uid d]; t_pred := trunc (hist_len c) [d_uid d]; g_dets := [d_uid d] |}.

(* merge_external(dest, candidate, [0], false): SortAttributes::merge (epoch, custom id) then
   SortMetric::optimize (Kalman step = oracle, update_history) *)
Definition absorb (c : cfg) (epoch : N) (d : detection) (t : trk) : trk :=
  {| t_id := t_id t; t_scene := t_scene t; t_last := epoch; t_len := t_len t + 1; t_custom := d_custom d;
     t_obs := trunc (hist_len c) (t_obs t ++ [d_uid d]); t_pred := trunc (hist_len c) (t_pred t ++ [d_uid d]);
     g_dets := g_dets t ++ [d_uid d] |}.

(* From<&Track> for SortTrack *)
Definition rec_of (t : trk) : rec :=
  {| r_id := t_id t; r_epoch := t_last t; r_scene := t_scene t; r_len := t_len t; r_custom := t_custom t;
     r_obs := last (t_obs t) 0; r_pred := last (t_pred t) 0; r_name := hd 0 (g_dets t) |}.

Definition last_uid (t : trk) : N := last (g_dets t) 0.

Definition upd_track (id : N) (f : trk -> trk) (l : list trk) : list trk :=
  map (fun t => if t_id t =? id then f t else t) l.

Definition find_track (id : N) (l : list trk) : option trk := find (fun t => t_id t =? id) l.

Definition indexed {A} (l : list A) : list (nat * A) := combine (seq 0 (length l)) l.

(* ------------------------------------------------------------------------------------------------ *)
(* The assignment interface.  solve tag thr n cols pairs:
     tag   = uid of the call's first detection (identifies the call; the code's tie-breaking may differ
             from call to call - hash-map and channel order - so the solver may depend on it),
     thr   = weight of "start a new track", n = number of candidates,
     cols  = names (last absorbed detection) of the column tracks, pairs = (candidate, column, weight);
   result: per candidate, in input order, the column it continues or None. *)
Definition solver := N -> Z -> nat -> list N -> list (nat * nat * Z) -> list (option nat).

Definition solver_sound (solve : solver) : Prop :=
  forall tag thr n cols ps,
    let r := solve tag thr n cols ps in
    length r = n
    /\ (forall i j, nth_error r i = Some (Some j) -> exists w, In (i, j, w) ps)
    /\ (forall i i' j, nth_error r i = Some (Some j) -> nth_error r i' = Some (Some j) -> i = i').

(* ------------------------------------------------------------------------------------------------ *)
Section Tracker.
  Variable G : N -> list N -> option Z.
  Variable D2R : N -> list N -> Q.
  Variable solve : solver.
  Variable c : cfg.

  (* the ObservationMetricOk records that reach the voting for candidate i (foreign_track_distances:
     compatible() first, then the metric; rel already satisfies the first two conjuncts of compatible) *)
  Definition pair_weight (epoch : N) (d : detection) (t : trk) : option Z :=
    if constraint_ok c (absdiff epoch (t_last t)) (D2R (d_uid d) (g_dets t))
    then G (d_uid d) (g_dets t) else None.

  Definition pairs_for (epoch : N) (rel : list trk) (id : nat * detection) : list (nat * nat * Z) :=
    flat_map (fun jt : nat * trk =>
                match pair_weight epoch (snd id) (snd jt) with
                | Some w => [(fst id, fst jt, w)]
                | None => []
                end) (indexed rel).

  Definition all_pairs (epoch : N) (rel : list trk) (dets : list detection) : list (nat * nat * Z) :=
    flat_map (pairs_for epoch rel) (indexed dets).

  Definition call_tag (dets : list detection) : N :=
    match dets with [] => 0 | d :: _ => d_uid d end.

  (* winners as track ids, per candidate in input order *)
  Definition winners (epoch : N) (rel : list trk) (dets : list detection) : list (option N) :=
    map (fun o : option nat => match o with
                               | Some j => option_map t_id (nth_error rel j)
                               | None => None
                               end)
        (solve (call_tag dets) (thr c) (length dets) (map last_uid rel) (all_pairs epoch rel dets)).

  (* one iteration of `for mut t in tracks` *)
  Definition apply_one (scene epoch : N) (st : tstate) (dw : detection * option N) : tstate * list rec :=
    let d := fst dw in
    let st0 := set_submitted st (g_submitted st ++ [d_uid d]) in
    let '(st1, id) :=
      match snd dw with
      | Some dest => (set_live st0 (upd_track dest (absorb c epoch d) (live st0)), dest)
      | None => let id := next_id st0 + 1 in
                (set_next_id (set_live st0 (live st0 ++ [fresh_track c id scene epoch d])) id, id)
      end in
    match find_track id (live st1) with
    | Some t => (st1, [rec_of t])
    | None => (st1, [])      (* store.get(&track_id).unwrap() panics: unreachable (predict_one_record_per_detection) *)
    end.

  Fixpoint apply_all (scene epoch : N) (st : tstate) (dws : list (detection * option N)) : tstate * list rec :=
    match dws with
    | [] => (st, [])
    | dw :: rest =>
        let '(st1, r1) := apply_one scene epoch st dw in
        let '(st2, r2) := apply_all scene epoch st1 rest in
        (st2, r1 ++ r2)
    end.

  (* predict_with_scene after the auto-waste prologue *)
  Definition predict_core (st : tstate) (scene : N) (dets : list detection) : list rec * tstate :=
    let '(epoch, st1) := next_epoch st scene in
    let rel := filter (relevant c scene epoch) (live st1) in
    let ws := winners epoch rel dets in
    let '(st2, recs) := apply_all scene epoch st1 (combine dets ws) in
    (recs, st2).

  Definition shard_counts (l : list trk) : list N :=
    map (fun k => N.of_nat (length (filter (fun t => (t_id t mod shards c) =? N.of_nat k) l)))
        (seq 0 (N.to_nat (shards c))).

  (* SortLookup::IdleLookup *)
  Definition idle_lookup (e : list (N * N)) (scene : N) (t : trk) : bool :=
    (t_scene t =? scene) && negb (t_last t =? epoch_of e (t_scene t)).

  Definition tstep (st : tstate) (op : top) : tout * tstate :=
    match op with
    | Predict scene dets =>
        let '(recs, st') := predict_core (prologue c st) scene dets in (ORecords recs, st')
    | Skip scene n =>
        (* EpochDb::skip_epochs_for_scene, then auto_waste() *)
        let st1 := set_epochs st (set_epoch (epochs st) scene (epoch_of (epochs st) scene + n)) in
        (OUnit, auto_waste c st1)
    | Wasted =>
        (* auto_waste(); find_usable on the wasted store; the Wasted ones are fetched *)
        let st1 := auto_waste c st in
        let out := filter (expired c (epochs st1)) (wasted st1) in
        let keep := filter (fun t => negb (expired c (epochs st1) t)) (wasted st1) in
        (OWasted out, set_delivered (set_wasted st1 keep) (g_delivered st1 ++ out))
    | Idle scene =>
        (* lookup(IdleLookup(scene)) then drop those whose status is Wasted *)
        (OIdle (map rec_of (filter (fun t => negb (expired c (epochs st) t))
                                   (filter (idle_lookup (epochs st) scene) (live st)))), st)
    | ClearWasted =>
        (OUnit, set_cleared (set_wasted st []) (g_cleared st ++ wasted st))
    | SetAutoWaste p => (OUnit, set_aw st 0 p)
    | ActiveStats => (OStats (shard_counts (live st)), st)
    | WastedStats => (OStats (shard_counts (wasted st)), st)
    | CurrentEpoch scene => (OEpoch (epoch_of (epochs st) scene), st)
    end.

  Definition trun_from (st : tstate) (ops : list top) : list tout * tstate :=
    fold_left (fun acc op => let '(o, st') := tstep (snd acc) op in (fst acc ++ [o], st')) ops ([], st).

  Definition trun (ops : list top) : list tout * tstate := trun_from init ops.

  (* BatchSort::predict with a request over several (distinct) scenes, results collected before the next
     call: ONE prologue (BatchSort's own, translated), then the per-scene body for every scene.  Used by the correspondence only. *)
  Definition batch_step (st : tstate) (b : list (N * list detection)) : list (N * list rec) * tstate :=
    fold_left (fun acc sd => let '(recs, st') := predict_core (snd acc) (fst sd) (snd sd) in
                             (fst acc ++ [(fst sd, recs)], st'))
              b ([], prologue_batch c st).

End Tracker.

(* The visual trackers (VisualSort, BatchVisualSort) share the whole lifecycle with SORT - same TrackerAPI, EpochDb,
   stores, id counter, history truncation, compatible() = same scene /\ gap <= max_idle /\ constraints - and differ
   only in HOW a call associates detections with relevant tracks (appearance voting first, Hungarian on the rest:
   C12) and in per-track data the properties C01/C03/C04 do not mention.  In the model they are the same step
   function with their own translated prologue and ANY association passing the interface check (given_solver). *)
Definition tstep_with (pro : cfg -> tstate -> tstate) (G : N -> list N -> option Z) (D2R : N -> list N -> Q)
           (solve : solver) (c : cfg) (st : tstate) (op : top) : tout * tstate :=
  match op with
  | Predict scene dets => let '(recs, st') := predict_core G D2R solve c (pro c st) scene dets in (ORecords recs, st')
  | _ => tstep G D2R solve c st op
  end.

Definition trun_with (pro : cfg -> tstate -> tstate) G D2R (solve : solver) (c : cfg) (ops : list top) : list tout * tstate :=
  fold_left (fun acc op => let '(o, st') := tstep_with pro G D2R solve c (snd acc) op in (fst acc ++ [o], st')) ops ([], init).

Definition tstep_visual := tstep_with prologue_visual.
Definition trun_visual := trun_with prologue_visual.

Definition batch_step_with (pro : cfg -> tstate -> tstate) G D2R (solve : solver) (c : cfg) (st : tstate)
           (b : list (N * list detection)) : list (N * list rec) * tstate :=
  fold_left (fun acc sd => let '(recs, st') := predict_core G D2R solve c (snd acc) (fst sd) (snd sd) in
                           (fst acc ++ [(fst sd, recs)], st'))
            b ([], pro c st).

(* ------------------------------------------------------------------------------------------------ *)
(* Executable default for the assignment: exhaustive search over all gated partial matchings.
   value = sum of matched weights + thr per unmatched candidate; pairs lighter than thr are never worth
   taking (thr > 0) and are not branched on.  Returns (best value, number of optimal solutions, the first
   optimal solution in search order). *)
Definition bm_better (a b : Z * N * list (option nat)) : Z * N * list (option nat) :=
  let '(va, ca, sa) := a in
  let '(vb, cb, sb) := b in
  if (va <? vb)%Z then b else if (vb <? va)%Z then a else (va, ca + cb, sa).

Fixpoint bm (thr : Z) (ps : list (nat * nat * Z)) (cands : list nat) (used : list nat)
  : Z * N * list (option nat) :=
  match cands with
  | [] => (0%Z, 1, [])
  | i :: rest =>
      let none := let '(v, k, s) := bm thr ps rest used in ((v + thr)%Z, k, None :: s) in
      fold_left (fun best p =>
                   let '(i', j, w) := p in
                   if Nat.eqb i' i && (thr <=? w)%Z && negb (existsb (Nat.eqb j) used)
                   then let '(v, k, s) := bm thr ps rest (j :: used) in
                        bm_better best ((v + w)%Z, k, Some j :: s)
                   else best) ps none
  end.

Definition best_matching : solver :=
  fun _tag thr n _cols ps => snd (bm thr ps (seq 0 n) []).

Definition count_optimal (thr : Z) (n : nat) (ps : list (nat * nat * Z)) : N :=
  snd (fst (bm thr ps (seq 0 n) [])).

Definition best_value (thr : Z) (n : nat) (ps : list (nat * nat * Z)) : Z :=
  fst (fst (bm thr ps (seq 0 n) [])).

(* ------------------------------------------------------------------------------------------------ *)
(* Execution support for the correspondence (tools/props/tracker_common.py) *)

Fixpoint alookup {A} (k : N) (l : list (N * A)) : option A :=
  match l with
  | [] => None
  | (k', v) :: r => if k' =? k then Some v else alookup k r
  end.

(* oracle table of a history: candidate uid -> (last absorbed uid of the stored track -> (weight, dist_in_2r)) *)
Definition otable := list (N * list (N * (option Z * Q))).

Definition G_of (tb : otable) (cand : N) (dets : list N) : option Z :=
  match alookup cand tb with
  | Some row => match alookup (last dets 0) row with Some (w, _) => w | None => None end
  | None => None
  end.

Definition D2R_of (tb : otable) (cand : N) (dets : list N) : Q :=
  match alookup cand tb with
  | Some row => match alookup (last dets 0) row with Some (_, q) => q | None => 0%Q end
  | None => 0%Q
  end.

Fixpoint index_of (x : N) (l : list N) : option nat :=
  match l with
  | [] => None
  | y :: r => if y =? x then Some O else option_map S (index_of x r)
  end.

(* the implementation's own assignment of a call (by track name) is accepted when it is a valid gated
   matching of the model's pairs with the optimal value (DESIGN.md 2.3: on ties any optimum is accepted) *)
Fixpoint weight_in (i j : nat) (ps : list (nat * nat * Z)) : option Z :=
  match ps with
  | [] => None
  | (i', j', w) :: r => if Nat.eqb i i' && Nat.eqb j j' then Some w else weight_in i j r
  end.

Fixpoint hint_value (thr : Z) (ps : list (nat * nat * Z)) (i : nat) (used : list nat) (h : list (option nat)) : option Z :=
  match h with
  | [] => Some 0%Z
  | None :: r => option_map (fun v => (v + thr)%Z) (hint_value thr ps (S i) used r)
  | Some j :: r =>
      if existsb (Nat.eqb j) used then None
      else match weight_in i j ps with
           | Some w => option_map (fun v => (v + w)%Z) (hint_value thr ps (S i) (j :: used) r)
           | None => None
           end
  end.

Definition hints := list (N * list (option N)).   (* call tag -> per candidate: name of the continued track *)

Definition hint_solver (hs : hints) : solver :=
  fun tag thr n cols ps =>
    let best := bm thr ps (seq 0 n) [] in
    match alookup tag hs with
    | Some h =>
        let hc := map (fun o : option N => match o with Some nm => index_of nm cols | None => None end) h in
        if Nat.eqb (length hc) n &&
           match hint_value thr ps 0 [] hc with Some v => (v =? fst (fst best))%Z | None => false end
        then hc else snd best
    | None => snd best
    end.

(* ------------------------------------------------------------------------------------------------ *)
(* An association SUPPLIED from outside (per call, by tag and column names), used only if it passes the executable
   interface check: one answer per candidate, only offered pairs, no column twice.  Otherwise "all new". *)
Fixpoint sound_from (ps : list (nat * nat * Z)) (i : nat) (used : list nat) (a : list (option nat)) : bool :=
  match a with
  | [] => true
  | None :: r => sound_from ps (S i) used r
  | Some j :: r =>
      negb (existsb (Nat.eqb j) used)
      && match weight_in i j ps with Some _ => true | None => false end
      && sound_from ps (S i) (j :: used) r
  end.

Definition sound_assignmentb (n : nat) (ps : list (nat * nat * Z)) (a : list (option nat)) : bool :=
  Nat.eqb (length a) n && sound_from ps 0 [] a.

Definition given_solver (f : N -> list N -> list (option nat)) : solver :=
  fun tag _thr n cols ps => let a := f tag cols in if sound_assignmentb n ps a then a else repeat None n.

(* the association given by track NAMES (last absorbed detection), as read off the implementation's run; a name that is
   not a column of the call (the track is of another scene, expired, ...) becomes an out-of-range column, which no offered
   pair mentions, so the association is rejected *)
Definition given_by_name (hs : hints) : N -> list N -> list (option nat) :=
  fun tag cols => match alookup tag hs with
                  | Some h => map (fun o : option N => match o with
                                                       | Some nm => match index_of nm cols with
                                                                    | Some j => Some j
                                                                    | None => Some (length cols)
                                                                    end
                                                       | None => None
                                                       end) h
                  | None => []
                  end.

(* printable forms *)
Definition rec_tuple (r : rec) := (r_id r, r_epoch r, r_scene r, r_len r, r_custom r, r_obs r, r_name r).
Definition trk_tuple (t : trk) := (t_id t, t_scene t, t_last t, t_len t, t_custom t, t_obs t, N.of_nat (length (t_pred t)), last_uid t).

Inductive xop :=
| XOp (op : top)
| XBatch (b : list (N * list detection)).

Inductive xout :=
| XRecords (l : list (N * N * N * N * option Z * N * N))
| XBatchOut (l : list (N * list (N * N * N * N * option Z * N * N)))
| XWasted (l : list (N * N * N * N * option Z * list N * N * N))
| XIdle (l : list (N * N * N * N * option Z * N * N))
| XStats (l : list N)
| XEpoch (e : N)
| XUnit.

Definition xout_of (o : tout) : xout :=
  match o with
  | ORecords l => XRecords (map rec_tuple l)
  | OWasted l => XWasted (map trk_tuple l)
  | OIdle l => XIdle (map rec_tuple l)
  | OStats l => XStats l
  | OEpoch e => XEpoch e
  | OUnit => XUnit
  end.

(* number of optimal assignments of the call about to be made (1 = unique) *)
Definition ties_of (G : N -> list N -> option Z) (D2R : N -> list N -> Q) (c : cfg) (st : tstate)
           (scene : N) (dets : list detection) : N :=
  let '(epoch, st1) := next_epoch st scene in
  let rel := filter (relevant c scene epoch) (live st1) in
  count_optimal (thr c) (length dets) (all_pairs G D2R c epoch rel dets).

Definition xstep (G : N -> list N -> option Z) (D2R : N -> list N -> Q) (solve : solver) (c : cfg)
           (st : tstate) (x : xop) : (xout * N) * tstate :=
  match x with
  | XOp op =>
      let ties := match op with
                  | Predict scene dets => ties_of G D2R c (prologue c st) scene dets
                  | _ => 1
                  end in
      let '(o, st') := tstep G D2R solve c st op in ((xout_of o, ties), st')
  | XBatch b =>
      let '(res, st') := batch_step G D2R solve c st b in
      (* ties: product over the scenes is not needed; any scene with a tie flags the batch *)
      let ties := fst (fold_left (fun acc sd =>
                                    let '(t, s) := acc in
                                    let t' := ties_of G D2R c s (fst sd) (snd sd) in
                                    let '(_, s') := predict_core G D2R solve c s (fst sd) (snd sd) in
                                    (t * t', s')) b (1, prologue_batch c st)) in
      ((XBatchOut (map (fun sr => (fst sr, map rec_tuple (snd sr))) res), ties), st')
  end.

(* a whole history: per op (output, number of optimal assignments, main store, wasted store) *)
Definition run_case_with (solve : solver) (tb : otable) (c : cfg) (xs : list xop)
  : list (xout * N * list (N * N * N * N * option Z * list N * N * N) * list (N * N * N * N * option Z * list N * N * N)) :=
  fst (fold_left (fun acc x =>
                    let '((o, ties), st') := xstep (G_of tb) (D2R_of tb) solve c (snd acc) x in
                    (fst acc ++ [(o, ties, map trk_tuple (live st'), map trk_tuple (wasted st'))], st'))
                 xs ([], init)).

Definition run_case (tb : otable) (hs : hints) (c : cfg) (xs : list xop) := run_case_with (hint_solver hs) tb c xs.

(* the visual kinds: XOp = VisualSort (tstep_visual), XBatch = BatchVisualSort (one translated prologue, then the bodies);
   the association is the implementation's own (hs); the N of every step is 1 if it passed the interface check in every
   call of the step and 0 otherwise (a rejected association is a finding) *)
Definition accepted_of (G : N -> list N -> option Z) (D2R : N -> list N -> Q) (f : N -> list N -> list (option nat))
           (c : cfg) (st : tstate) (scene : N) (dets : list detection) : N :=
  let '(epoch, st1) := next_epoch st scene in
  let rel := filter (relevant c scene epoch) (live st1) in
  if sound_assignmentb (length dets) (all_pairs G D2R c epoch rel dets) (f (call_tag dets) (map last_uid rel)) then 1 else 0.

Definition xstep_given (G : N -> list N -> option Z) (D2R : N -> list N -> Q) (f : N -> list N -> list (option nat)) (c : cfg)
           (st : tstate) (x : xop) : (xout * N) * tstate :=
  match x with
  | XOp op =>
      let acc := match op with
                 | Predict scene dets => accepted_of G D2R f c (prologue_visual c st) scene dets
                 | _ => 1
                 end in
      let '(o, st') := tstep_visual G D2R (given_solver f) c st op in ((xout_of o, acc), st')
  | XBatch b =>
      let '(res, st') := batch_step_with prologue_batch_visual G D2R (given_solver f) c st b in
      let acc := fst (fold_left (fun a sd =>
                                   let '(t, s) := a in
                                   let t' := accepted_of G D2R f c s (fst sd) (snd sd) in
                                   let '(_, s') := predict_core G D2R (given_solver f) c s (fst sd) (snd sd) in
                                   (t * t', s')) b (1, prologue_batch_visual c st)) in
      ((XBatchOut (map (fun sr => (fst sr, map rec_tuple (snd sr))) res), acc), st')
  end.

Definition run_case_given (tb : otable) (hs : hints) (c : cfg) (xs : list xop)
  : list (xout * N * list (N * N * N * N * option Z * list N * N * N) * list (N * N * N * N * option Z * list N * N * N)) :=
  fst (fold_left (fun acc x =>
                    let '((o, ok), st') := xstep_given (G_of tb) (D2R_of tb) (given_by_name hs) c (snd acc) x in
                    (fst acc ++ [(o, ok, map trk_tuple (live st'), map trk_tuple (wasted st'))], st'))
                 xs ([], init)).
