(* Model of the voting engines (C17):
     src/track/voting/topn.rs   TopNVoting::winners
     src/track/voting/best.rs   BestFitVoting::winners
     src/trackers/sort/voting.rs SortVoting::winners  (the assignment part lives in Model/Assign.v)
   Hand-written, executable; tied to the code by the exact correspondence in tools/props/c17.py.

   Numbers: distances are exact rationals.  Every distance is normalised with [Qred] when it is read, and every
   weight is the [Qred] of an exact sum, so that equal numbers are equal terms (Leibniz) and the results of two
   runs can be compared with [=].

   Hash maps: `Itertools::into_group_map` and the hand-written grouping loops are modelled by [group_map]:
   one entry per key, in order of first appearance, each holding that key's values in stream order.
   The order of the entries is an artefact of the model (Rust iterates a HashMap in an unspecified order);
   the theorems compare results as finite maps ([assoc]) and hold for every order (permutation invariance).
   `Vec::sort_by` is a stable sort: [sort_desc] is a stable insertion sort.  *)
From Coq Require Import List NArith ZArith QArith Bool Arith.
From Similari Require Import Base.Num Model.Assign.
Import ListNotations.

Record dist := { d_from : N; d_to : N; d_attr : option Q; d_feat : option Q }.

(* the feature distance as the model reads it *)
Definition fd (d : dist) : option Q := option_map Qred (d_feat d).

(* ---------------------------------------------------------------------------------------------- *)
(* into_group_map *)
Section GroupMap.
  Context {K V : Type}.
  Variable keqb : K -> K -> bool.

  (* keys in order of first appearance *)
  Fixpoint nodupf (l : list K) : list K :=
    match l with
    | [] => []
    | x :: r => x :: filter (fun y => negb (keqb x y)) (nodupf r)
    end.

  Definition vals (k : K) (l : list (K * V)) : list V :=
    map snd (filter (fun kv => keqb k (fst kv)) l).

  Definition group_map (l : list (K * V)) : list (K * list V) :=
    map (fun k => (k, vals k l)) (nodupf (map fst l)).

  (* finite-map lookup *)
  Definition assoc {W : Type} (k : K) (m : list (K * W)) : option W :=
    option_map snd (find (fun e => keqb k (fst e)) m).
End GroupMap.

Definition pair_eqb (a b : N * N) : bool := (fst a =? fst b)%N && (snd a =? snd b)%N.

(* ---------------------------------------------------------------------------------------------- *)
(* stable sort by decreasing weight:  v.sort_by(|l, r| r.weight.partial_cmp(&l.weight).unwrap()) *)
Section Sort.
  Context {A : Type}.
  Variable w : A -> Q.
  Fixpoint insert_desc (x : A) (l : list A) : list A :=
    match l with
    | [] => [x]
    | y :: r => if Qltb (w x) (w y) then y :: insert_desc x r else x :: l
    end.
  Definition sort_desc (l : list A) : list A := fold_right insert_desc [] l.
End Sort.

(* ---------------------------------------------------------------------------------------------- *)
(* the part shared by topn.rs:75-114 and best.rs:56-104 *)

(* let mut max_dist = -1.0; ... Some(e) => { if max_dist < *e { max_dist = *e; } ... }
   The filter closure runs for EVERY element of the stream (into_group_map drains it) before the weights are
   computed, so the weights use the maximum over all `Some` distances - also those above max_distance. *)
Definition max_step (m : Q) (d : dist) : Q :=
  match fd d with
  | Some e => if Qltb m e then e else m
  | None => m
  end.
Definition max_dist (s : list dist) : Q := fold_left max_step s (-1 # 1).

(* .filter(.. *e <= self.max_distance ..).map(|..| ((src, dest), dist.unwrap())) *)
Definition kept (maxd : Q) (s : list dist) : list ((N * N) * Q) :=
  flat_map (fun d => match fd d with
                     | Some e => if Qle_bool e maxd then [((d_from d, d_to d), e)] else []
                     | None => []
                     end) s.

(* c.into_iter().map(|d| (max_dist - d) as f64).sum() *)
Definition weight (md : Q) (c : list Q) : Q :=
  Qred (fold_right (fun e acc => (md - e) + acc) 0 c).

Definition cand := (N * N * Q)%type.            (* query, track, weight *)
Definition c_q (c : cand) : N := fst (fst c).
Definition c_t (c : cand) : N := snd (fst c).
Definition c_w (c : cand) : Q := snd c.

(* .into_group_map().into_iter().filter(|(_, count)| count.len() >= self.min_votes).map(.. weight ..) *)
Definition cands (maxd : Q) (minv : nat) (s : list dist) : list cand :=
  let md := max_dist s in
  map (fun g => (fst (fst g), snd (fst g), weight md (snd g)))
      (filter (fun g => minv <=? length (snd g))%nat (group_map pair_eqb (kept maxd s))).

(* ---------------------------------------------------------------------------------------------- *)
(* TopNVoting::winners *)
Definition by_query (l : list cand) : list (N * list (N * Q)) :=
  group_map N.eqb (map (fun c => (c_q c, (c_t c, c_w c))) l).

Definition topn_voting (n : nat) (maxd : Q) (minv : nat) (s : list dist) : list (N * list (N * Q)) :=
  map (fun g => (fst g, firstn n (sort_desc (@snd N Q) (snd g))))
      (by_query (cands maxd minv s)).

(* ---------------------------------------------------------------------------------------------- *)
(* BestFitVoting::winners: candidates sorted by decreasing weight; a track goes to the first claimant in that
   order (HashSet `results`), every later claimant is rewritten to point at its own query. *)
Fixpoint award (won : list N) (l : list cand) : list cand :=
  match l with
  | [] => []
  | c :: r =>
      if existsb (N.eqb (c_t c)) won
      then (c_q c, c_q c, c_w c) :: award won r
      else c :: award (c_t c :: won) r
  end.

Definition best_fit_voting (maxd : Q) (minv : nat) (s : list dist) : list (N * list (N * Q)) :=
  by_query (award [] (sort_desc c_w (cands maxd minv s))).

(* ---------------------------------------------------------------------------------------------- *)
(* ties, as seen by the model (DESIGN 2.3).  topn: two candidates of one query with equal weight (their
   relative order / the cut at N is then unspecified).  best fit: two candidates with equal weight that share
   the query or the track. *)
Fixpoint has_tie (cmpb : cand -> cand -> bool) (l : list cand) : bool :=
  match l with
  | [] => false
  | c :: r => existsb (fun c' => cmpb c c' && Qeq_bool (c_w c) (c_w c')) r || has_tie cmpb r
  end.
Definition topn_tie (maxd : Q) (minv : nat) (s : list dist) : bool :=
  has_tie (fun a b => (c_q a =? c_q b)%N) (cands maxd minv s).
Definition bestfit_tie (maxd : Q) (minv : nat) (s : list dist) : bool :=
  has_tie (fun a b => (c_q a =? c_q b)%N || (c_t a =? c_t b)%N) (cands maxd minv s).

(* ---------------------------------------------------------------------------------------------- *)
(* SortVoting::winners.  The stream's attribute metric becomes an integer weight
   `(attribute_metric.unwrap_or(0.0) * F32_U64_MULT) as i64`; the harness passes that integer (computed by the
   same expression on its side and re-derived exactly by the Python driver), see Model/Assign.v. *)
Section SortVoting.
  Variable km : list (list Z) -> list nat.          (* pathfinding::kuhn_munkres - an oracle *)
  Definition sort_voting (thr : Z) (cands_n tracks_n : nat) (s : pairs) : option (list (N * N)) :=
    sort_winners km thr cands_n tracks_n s.
End SortVoting.

(* ---------------------------------------------------------------------------------------------- *)
(* entry points for the correspondence check *)
Definition mk (f t : N) (e : option Q) : dist := {| d_from := f; d_to := t; d_attr := None; d_feat := e |}.

(* rationals are printed as (numerator, denominator) *)
Definition qp (q : Q) : Z * Z := (Qnum q, Zpos (Qden q)).
Definition out_map (r : list (N * list (N * Q))) : list (N * list (N * (Z * Z))) :=
  map (fun g => (fst g, map (fun e => (fst e, qp (snd e))) (snd g))) r.
Definition out_cands (l : list cand) : list (N * N * (Z * Z)) := map (fun c => (c_q c, c_t c, qp (c_w c))) l.

Definition run_topn (n : nat) (maxd : Q) (minv : nat) (s : list dist) :=
  (out_map (topn_voting n maxd minv s), topn_tie maxd minv s, out_cands (cands maxd minv s)).
Definition run_bestfit (maxd : Q) (minv : nat) (s : list dist) :=
  (out_map (best_fit_voting maxd minv s), bestfit_tie maxd minv s, out_cands (cands maxd minv s)).
