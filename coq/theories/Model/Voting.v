(* Model of the voting engines (C17):
     src/track/voting/topn.rs   TopNVoting::winners
     src/track/voting/best.rs   BestFitVoting::winners
     src/trackers/sort/voting.rs SortVoting::winners  (the assignment part lives in Model/Assign.v)
   Hand-written, executable; tied to the code by the exact correspondence in tools/props/c17.py.

   Numbers: distances are exact rationals.  Every distance is normalised with [Qred] when it is read, and every
   weight is the [Qred] of an exact sum, so that equal numbers are equal terms (Leibniz) and the results of two
   runs can be compared with [=].

   Hash maps: `Itertools::into_group_map` and the hand-written grouping loops are modelled by [group_map]:
   one entry per key, in order of first appearance, each holding that key's values in stream order.
   The order of the entries is an artefact of the model (Rust iterates a HashMap in an unspecified order);
   the theorems compare results as finite maps ([assoc]) and hold for every order (permutation invariance).
   `Vec::sort_by` is a stable sort: [sort_desc] is a stable insertion sort.  *)
From Coq Require Import List NArith ZArith QArith Bool Arith.
From Similari Require Import Base.Num Model.Assign.
Import ListNotations.

Record dist := { d_from : N; d_to : N; d_attr : option Q; d_feat : option Q }.

(* the feature distance as the model reads it *)
Definition fd (d : dist) : option Q := option_map Qred (d_feat d).

(* ---------------------------------------------------------------------------------------------- *)
(* into_group_map *)
Section GroupMap.
  Context {K V : Type}.
  Variable keqb : K -> K -> bool.

  (* keys in order of first appearance *)
  Fixpoint nodupf (l : list K) : list K :=
    match l with
    | [] => []
    | x :: r => x :: filter (fun y => negb (keqb x y)) (nodupf r)
    end.

  Definition vals (k : K) (l : list (K * V)) : list V :=
    map snd (filter (fun kv => keqb k (fst kv)) l).

  Definition group_map (l : list (K * V)) : list (K * list V) :=
    map (fun k => (k, vals k l)) (nodupf (map fst l)).

  (* finite-map lookup *)
  Definition assoc {W : Type} (k : K) (m : list (K * W)) : option W :=
    option_map snd (find (fun e => keqb k (fst e)) m).
End GroupMap.

Definition pair_eqb (a b : N * N) : bool := (fst a =? fst b)%N && (snd a =? snd b)%N.

(* ---------------------------------------------------------------------------------------------- *)
(* stable sort by decreasing weight:  v.sort_by(|l, r| r.weight.partial_cmp(&l.weight).unwrap()) *)
Section Sort.
  Context {A : Type}.
  Variable w : A -> Q.
  Fixpoint insert_desc (x : A) (l : list A) : list A :=
    match l with
    | [] => [x]
    | y :: r => if Qltb (w x) (w y) then y :: insert_desc x r else x :: l
    end.
  Definition sort_desc (l : list A) : list A := fold_right insert_desc [] l.
End Sort.

(* ---------------------------------------------------------------------------------------------- *)
(* the part shared by topn.rs:75-114 and best.rs:56-104 *)

(* let mut max_dist = -1.0; ... Some(e) => { if max_dist < *e { max_dist = *e; } ... }
   The filter closure runs for EVERY element of the stream (into_group_map drains it) before the weights are
   computed, so the weights use the maximum over all `Some` distances - also those above max_distance. *)
Definition max_step (m : Q) (d : dist) : Q :=
  match fd d with
  | Some e => if Qltb m e then e else m
  | None => m
  end.
Definition max_dist (s : list dist) : Q := fold_left max_step s (-1 # 1).

(* .filter(.. *e <= self.max_distance ..).map(|..| ((src, dest), dist.unwrap())) *)
Definition kept (maxd : Q) (s : list dist) : list ((N * N) * Q) :=
  flat_map (fun d => match fd d with
                     | Some e => if Qle_bool e maxd then [((d_from d, d_to d), e)] else []
                     | None => []
                     end) s.

(* c.into_iter().map(|d| (max_dist - d) as f64).sum() *)
Definition weight (md : Q) (c : list Q) : Q :=
  Qred (fold_right (fun e acc => (md - e) + acc) 0 c).

Definition cand := (N * N * Q)%type.            (* query, track, weight *)
Definition c_q (c : cand) : N := fst (fst c).
Definition c_t (c : cand) : N := snd (fst c).
Definition c_w (c : cand) : Q := snd c.

(* .into_group_map().into_iter().filter(|(_, count)| count.len() >= self.min_votes).map(.. weight ..) *)
Definition cands (maxd : Q) (minv : nat) (s : list dist) : list cand :=
  let md := max_dist s in
  map (fun g => (fst (fst g), snd (fst g), weight md (snd g)))
      (filter (fun g => minv <=? length (snd g))%nat (group_map pair_eqb (kept maxd s))).

(* ---------------------------------------------------------------------------------------------- *)
(* TopNVoting::winners *)
Definition by_query (l : list cand) : list (N * list (N * Q)) :=
  group_map N.eqb (map (fun c => (c_q c, (c_t c, c_w c))) l).

Definition topn_voting (n : nat) (maxd : Q) (minv : nat) (s : list dist) : list (N * list (N * Q)) :=
  map (fun g => (fst g, firstn n (sort_desc (@snd N Q) (snd g))))
      (by_query (cands maxd minv s)).

(* ---------------------------------------------------------------------------------------------- *)
(* BestFitVoting::winners: candidates sorted by decreasing weight; a track goes to the first claimant in that
   order (HashSet `results`), every later claimant is rewritten to point at its own query. *)
Fixpoint award (won : list N) (l : list cand) : list cand :=
  match l with
  | [] => []
  | c :: r =>
      if existsb (N.eqb (c_t c)) won
      then (c_q c, c_q c, c_w c) :: award won r
      else c :: award (c_t c :: won) r
  end.

Definition best_fit_voting (maxd : Q) (minv : nat) (s : list dist) : list (N * list (N * Q)) :=
  by_query (award [] (sort_desc c_w (cands maxd minv s))).

(* ---------------------------------------------------------------------------------------------- *)
(* ties, as seen by the model (DESIGN 2.3).  topn: two candidates of one query with equal weight (their
   relative order / the cut at N is then unspecified).  best fit: two candidates with equal weight that share
   the query or the track. *)
Fixpoint has_tie (cmpb : cand -> cand -> bool) (l : list cand) : bool :=
  match l with
  | [] => false
  | c :: r => existsb (fun c' => cmpb c c' && Qeq_bool (c_w c) (c_w c')) r || has_tie cmpb r
  end.
Definition topn_tie (maxd : Q) (minv : nat) (s : list dist) : bool :=
  has_tie (fun a b => (c_q a =? c_q b)%N) (cands maxd minv s).
Definition bestfit_tie (maxd : Q) (minv : nat) (s : list dist) : bool :=
  has_tie (fun a b => (c_q a =? c_q b)%N || (c_t a =? c_t b)%N) (cands maxd minv s).

(* ---------------------------------------------------------------------------------------------- *)
(* SortVoting::winners.  The stream's attribute metric becomes an integer weight
   `(attribute_metric.unwrap_or(0.0) * F32_U64_MULT) as i64`; the harness passes that integer (computed by the
   same expression on its side and re-derived exactly by the Python driver), see Model/Assign.v. *)
Section SortVoting.
  Variable km : list (list Z) -> list nat.          (* pathfinding::kuhn_munkres - an oracle *)
  Definition sort_voting (thr : Z) (cands_n tracks_n : nat) (s : pairs) : option (list (N * N)) :=
    sort_winners km thr cands_n tracks_n s.
End SortVoting.

(* ---------------------------------------------------------------------------------------------- *)
(* VisualVoting::winners (src/trackers/visual_sort/voting.rs).
   A stream entry carries the feature distance (exact rational) and the positional metric as the integer weight
   (attribute_metric * 1e6) as i64 (None: no positional metric), as in Model/Assign.v.
     1. BestFitVoting on the feature distances; every query that has any eligible claim (winner or loser) gets the
        HEAD of its best-fit list - its heaviest claim: the track if that claim won, the query itself if it lost - typed
        Visual; that head is also put into `excluded_tracks`.
     2. entries whose query is such a claimant, whose track is excluded, or that have no positional metric are dropped;
        the rest goes to SortVoting::new(thr, #remaining candidates, #remaining tracks), typed Positional.
   The result is a HashMap; the model returns it in canonical form (sorted by query id) so that equality is Leibniz. *)
Inductive vtype := Visual | Positional.

Record vd := { v_from : N; v_to : N; v_w : option Z; v_feat : option Q }.
Definition vd_dist (e : vd) : dist := {| d_from := v_from e; d_to := v_to e; d_attr := None; d_feat := v_feat e |}.

Definition vis_feature (maxd : Q) (minv : nat) (s : list vd) : list (N * N) :=
  flat_map (fun g => match snd g with
                     | [] => []                                  (* w[0] on an empty list: cannot happen *)
                     | e :: _ => [(fst g, fst e)]
                     end) (best_fit_voting maxd minv (map vd_dist s)).

Definition memN (x : N) (l : list N) : bool := existsb (N.eqb x) l.

Definition vis_remaining (claimants excluded : list N) (s : list vd) : pairs :=
  flat_map (fun e => match v_w e with
                     | Some z => if negb (memN (v_from e) claimants || memN (v_to e) excluded)
                                 then [(v_from e, v_to e, z)] else []
                     | None => []
                     end) s.

Definition vis_rem (maxd : Q) (minv : nat) (s : list vd) : pairs :=
  vis_remaining (map fst (vis_feature maxd minv s)) (map snd (vis_feature maxd minv s)) s.

(* sorted by key: the canonical form of a HashMap<u64, _> *)
Fixpoint insert_k {V : Type} (e : N * V) (l : list (N * V)) : list (N * V) :=
  match l with
  | [] => [e]
  | x :: r => if (fst e <=? fst x)%N then e :: l else x :: insert_k e r
  end.
Definition canon_k {V : Type} (l : list (N * V)) : list (N * V) := fold_right insert_k [] l.

Section VisualVoting.
  Variable km : list (list Z) -> list nat.
  Definition visual_raw (thr : Z) (maxd : Q) (minv : nat) (s : list vd) : option (list (N * (N * vtype))) :=
    let fw := vis_feature maxd minv s in
    let rem := vis_rem maxd minv s in
    match sort_winners km thr (length (froms rem)) (length (tos rem)) rem with
    | None => None
    | Some pw => Some (map (fun e => (fst e, (snd e, Visual))) fw ++ map (fun e => (fst e, (snd e, Positional))) pw)
    end.
  Definition visual_winners (thr : Z) (maxd : Q) (minv : nat) (s : list vd) : option (list (N * (N * vtype))) :=
    option_map canon_k (visual_raw thr maxd minv s).
End VisualVoting.

(* ---------------------------------------------------------------------------------------------- *)
(* entry points for the correspondence check *)
Definition mk (f t : N) (e : option Q) : dist := {| d_from := f; d_to := t; d_attr := None; d_feat := e |}.

(* rationals are printed as (numerator, denominator) *)
Definition qp (q : Q) : Z * Z := (Qnum q, Zpos (Qden q)).
Definition out_map (r : list (N * list (N * Q))) : list (N * list (N * (Z * Z))) :=
  map (fun g => (fst g, map (fun e => (fst e, qp (snd e))) (snd g))) r.
Definition out_cands (l : list cand) : list (N * N * (Z * Z)) := map (fun c => (c_q c, c_t c, qp (c_w c))) l.

Definition run_topn (n : nat) (maxd : Q) (minv : nat) (s : list dist) :=
  (out_map (topn_voting n maxd minv s), topn_tie maxd minv s, out_cands (cands maxd minv s)).
Definition run_bestfit (maxd : Q) (minv : nat) (s : list dist) :=
  (out_map (best_fit_voting maxd minv s), bestfit_tie maxd minv s, out_cands (cands maxd minv s)).

(* visual voting, checked against an implementation answer: the positional stage is an oracle call, so the model
   reports the Visual part, the remaining positional sub-stream and the bookkeeping the driver needs *)
Definition mkv (f t : N) (w : option Z) (e : option Q) : vd := {| v_from := f; v_to := t; v_w := w; v_feat := e |}.
Definition run_visual (maxd : Q) (minv : nat) (s : list vd) :=
  (vis_feature maxd minv s, vis_rem maxd minv s, bestfit_tie maxd minv (map vd_dist s)).
