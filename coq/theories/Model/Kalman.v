(* Model of the Kalman filters (C07):
     /repo/src/utils/kalman/kalman_2d_box.rs        Universal2DBoxKalmanFilter  (n = 5, state 10)
     /repo/src/utils/kalman/kalman_2d_point.rs      Point2DKalmanFilter         (n = 2, state 4)
     /repo/src/utils/kalman/kalman_2d_point_vec.rs  Vec2DKalmanFilter           (list of point filters)
     /repo/src/trackers/kalman_prediction.rs        make_prediction (initiate? ; predict ; update)

   One Gallina definition over [NumOps] (Base/Num.v): [Qops] runs exactly, [Fops] (binary64) runs for
   hundreds of steps next to the f32 implementation, [Rops] (Proofs/KalmanProofs.v) carries the theorems.

   Three layers, all executable:
   1. the CODE-SHAPED matrix model [g_initiate/g_predict/g_project/g_update/g_distance]: dimension-generic
      (matrices are lists of rows, built with [mtab], read with [mget]; sums are bounded [sum]s; nothing is
      unrolled), mirrored line by line from the Rust, INCLUDING [solve_lower] = forward substitution that
      reads ONLY THE LOWER TRIANGLE of its matrix argument (what nalgebra's solve_lower_triangular does; it
      is not a Cholesky solve) and a column-by-column Cholesky for [distance];
   2. the TEXTBOOK filter [tb_update] (gain P H^T S^-1 with a true inverse, P - K S K^T);
   3. the decoupled SCALAR filter per coordinate [sc_predict/sc_update] on (m, v, a, b, c).
   Proofs/KalmanProofs.v shows that on every reachable state the three coincide.

   Numeric literals: the DeepSORT noise multipliers (2, 10, 1e-2, 1e-5, 1e-1) are part of the SPECIFICATION
   ("the library's height-scaled noise model") and are therefore pinned here by hand ([box_consts]), not
   regenerated from the source: a change of one of them in the Rust code must show up as a disagreement.
   The gating constants come from SimilariGen.Consts. *)
From Coq Require Import List Arith Bool ZArith QArith Floats.
From Similari Require Import Base.Num.
From SimilariGen Require Import Consts.
Import ListNotations.

Section Kalman.
  Variable Ops : NumOps.
  Local Notation T := (T Ops).
  Local Notation "0" := (zero Ops).
  Local Notation "1" := (one Ops).
  Local Infix "+" := (add Ops).
  Local Infix "-" := (sub Ops).
  Local Infix "*" := (mul Ops).
  Local Infix "/" := (div Ops).

  (* ---------------------------------------------------------------------------------------------- *)
  (* vectors and matrices                                                                            *)

  Definition vec := list T.
  Definition mat := list (list T).          (* list of rows *)

  Definition vget (v : vec) (i : nat) : T := nth i v 0.
  Definition mget (M : mat) (i j : nat) : T := nth j (nth i M []) 0.
  Definition vtab (n : nat) (f : nat -> T) : vec := map f (seq O n).
  Definition mtab (n m : nat) (f : nat -> nat -> T) : mat :=
    map (fun i => map (f i) (seq O m)) (seq O n).

  Fixpoint sum (n : nat) (f : nat -> T) : T :=
    match n with
    | O => 0
    | S k => sum k f + f k
    end.

  Definition sq (x : T) : T := x * x.

  (* A (n x k) * B (k x m) *)
  Definition mmul (n k m : nat) (A B : mat) : mat :=
    mtab n m (fun i j => sum k (fun l => mget A i l * mget B l j)).
  (* transpose of A (n x m) *)
  Definition mtrans (n m : nat) (A : mat) : mat := mtab m n (fun i j => mget A j i).
  Definition madd (n m : nat) (A B : mat) : mat := mtab n m (fun i j => mget A i j + mget B i j).
  Definition msub (n m : nat) (A B : mat) : mat := mtab n m (fun i j => mget A i j - mget B i j).
  Definition mvmul (n m : nat) (A : mat) (v : vec) : vec :=
    vtab n (fun i => sum m (fun l => mget A i l * vget v l)).
  Definition vadd (n : nat) (u v : vec) : vec := vtab n (fun i => vget u i + vget v i).
  Definition vsub (n : nat) (u v : vec) : vec := vtab n (fun i => vget u i - vget v i).
  (* SMatrix::from_diagonal *)
  Definition mdiag (n : nat) (d : vec) : mat :=
    mtab n n (fun i j => if Nat.eqb i j then vget d i else 0).
  (* std.component_mul(&std) *)
  Definition vsq (n : nat) (v : vec) : vec := vtab n (fun i => sq (vget v i)).

  (* (A + A.transpose()) * 0.5 *)
  Definition msym (n : nat) (A : mat) : mat :=
    mtab n n (fun i j => (mget A i j + mget A j i) * of_Q Ops (1 # 2)).

  (* motion_matrix: identity with M[(i, n + i)] = DT (DT = 1) for i in 0..n *)
  Definition motion_matrix (n : nat) : mat :=
    mtab (2 * n) (2 * n)
         (fun i j => if Nat.eqb i j then 1
                     else if Nat.ltb i n && Nat.eqb j (n + i) then 1 else 0).
  (* update_matrix: SMatrix::<n, 2n>::identity() *)
  Definition update_matrix (n : nat) : mat :=
    mtab n (2 * n) (fun i j => if Nat.eqb i j then 1 else 0).

  (* nalgebra solve_lower_triangular for one right-hand side b: x_k = (b_k - sum_{l<k} L[k][l] x_l) / L[k][k].
     Reads L[k][l] for l <= k only.  fsub_list L b i = [x_0; ...; x_(i-1)].
     (nalgebra returns None - and the caller's unwrap panics - when a diagonal entry is zero; the model is
      total, the theorems carry the side condition.) *)
  Fixpoint fsub_list (L : mat) (b : nat -> T) (i : nat) : list T :=
    match i with
    | O => []
    | S k => let xs := fsub_list L b k in
             xs ++ [(b k - sum k (fun l => mget L k l * nth l xs 0)) / mget L k k]
    end.

  (* L (n x n, lower triangle read) \ B (n x m), column by column *)
  Definition solve_lower (n m : nat) (L B : mat) : mat :=
    let cols := map (fun j => fsub_list L (fun i => mget B i j) n) (seq O m) in
    mtab n m (fun i j => nth i (nth j cols []) 0).

  (* ---------------------------------------------------------------------------------------------- *)
  (* the generic constant-velocity filter; the three noise vectors are the only difference between    *)
  (* the box and the point filter                                                                     *)

  Record kfilter := {
    kdim : nat;
    init_std : vec -> vec;      (* first measurement -> 2n standard deviations *)
    motion_std : vec -> vec;    (* current mean      -> 2n standard deviations (process noise) *)
    proj_std : vec -> vec       (* current mean      -> n  standard deviations (measurement noise) *)
  }.

  Record kstate := { mean : vec; cov : mat }.

  Variable F : kfilter.
  Local Notation n := (kdim F).
  Local Notation n2 := (2 * kdim F)%nat.

  (* initiate: mean = (z, 0), covariance = diag(std^2) *)
  Definition g_initiate (z : vec) : kstate :=
    {| mean := vtab n2 (fun i => if Nat.ltb i n then vget z i else 0);
       cov := mdiag n2 (vsq n2 (init_std F z)) |}.

  (* predict: mean = M mean; covariance = M P M^T + motion_cov(mean) *)
  Definition g_predict (st : kstate) : kstate :=
    let std := vsq n2 (motion_std F (mean st)) in
    let motion_cov := mdiag n2 std in
    let M := motion_matrix n in
    {| mean := mvmul n2 n2 M (mean st);
       cov := madd n2 n2 (mmul n2 n2 n2 (mmul n2 n2 n2 M (cov st)) (mtrans n2 n2 M)) motion_cov |}.

  (* project: (H mean, H P H^T + innovation_cov(mean)) *)
  Definition g_project (m : vec) (P : mat) : vec * mat :=
    let std := vsq n (proj_std F m) in
    let innovation_cov := mdiag n std in
    let H := update_matrix n in
    (mvmul n n2 H m,
     madd n n (mmul n n2 n (mmul n n2 n2 H P) (mtrans n n2 H)) innovation_cov).

  (* update *)
  Definition g_update (st : kstate) (z : vec) : kstate :=
    let '(pm, pc) := g_project (mean st) (cov st) in
    let H := update_matrix n in
    let b := mtrans n2 n (mmul n2 n2 n (cov st) (mtrans n n2 H)) in          (* n x 2n *)
    let gain := solve_lower n n2 pc b in                                      (* n x 2n *)
    let innovation := vsub n z pm in
    {| mean := vadd n2 (mean st)
                    (vtab n2 (fun j => sum n (fun i => vget innovation i * mget gain i j)));
       (* covariance - gain^T S gain, then symmetrised: (covariance + covariance.transpose()) * 0.5 *)
       cov := msym n2 (msub n2 n2 (cov st)
                             (mmul n2 n n2 (mmul n2 n n (mtrans n n2 gain) pc) gain)) |}.

  (* The textbook update with a TRUE inverse Si of the innovation covariance S:
     K = P H^T S^-1,  mean + K y,  P - K S K^T. *)
  Definition tb_update (Si : mat) (st : kstate) (z : vec) : kstate :=
    let '(pm, pc) := g_project (mean st) (cov st) in
    let H := update_matrix n in
    let K := mmul n2 n n (mmul n2 n2 n (cov st) (mtrans n n2 H)) Si in        (* 2n x n *)
    let y := vsub n z pm in
    {| mean := vadd n2 (mean st) (mvmul n2 n K y);
       cov := msub n2 n2 (cov st) (mmul n2 n n2 (mmul n2 n n K pc) (mtrans n2 n K)) |}.

  (* distance: Cholesky factor of the projected covariance (lower triangle read, column by column),
     forward substitution, sum of squares.  sqrt is not part of NumOps: it is a parameter here. *)
  Section Distance.
    Variable sqrtT : T -> T.

    (* chol_cols S j = columns 0..j-1 of the factor, each of length nn *)
    Fixpoint chol_cols (nn : nat) (A : mat) (j : nat) : list (list T) :=
      match j with
      | O => []
      | S k =>
          let cs := chol_cols nn A k in
          let t := fun i => mget A i k - sum k (fun l => nth i (nth l cs []) 0 * nth k (nth l cs []) 0) in
          let d := sqrtT (t k) in
          cs ++ [map (fun i => if Nat.ltb i k then 0 else if Nat.eqb i k then d else t i / d) (seq O nn)]
      end.

    Definition cholesky (nn : nat) (A : mat) : mat :=
      let cs := chol_cols nn A nn in
      mtab nn nn (fun i j => nth i (nth j cs []) 0).

    Definition g_distance (st : kstate) (z : vec) : T :=
      let '(pm, pc) := g_project (mean st) (cov st) in
      let y := vsub n z pm in
      let L := cholesky n pc in
      let x := fsub_list L (fun i => vget y i) n in
      sum n (fun i => sq (nth i x 0)).
  End Distance.

  (* squared Mahalanobis distance for a DIAGONAL innovation covariance: sum y_i^2 / S_ii (sqrt-free) *)
  Definition g_distance_diag (st : kstate) (z : vec) : T :=
    let '(pm, pc) := g_project (mean st) (cov st) in
    sum n (fun i => sq (vget z i - vget pm i) / mget pc i i).

  (* a whole history *)
  Inductive kop := Predict | Update (z : vec).

  Definition g_step (st : kstate) (op : kop) : kstate :=
    match op with
    | Predict => g_predict st
    | Update z => g_update st z
    end.

  Definition g_run (st : kstate) (ops : list kop) : kstate := fold_left g_step ops st.

  (* all intermediate states, first to last (what the correspondence prints) *)
  Fixpoint g_trace (st : kstate) (ops : list kop) : list kstate :=
    match ops with
    | [] => []
    | op :: r => let st' := g_step st op in st' :: g_trace st' r
    end.

  (* ---------------------------------------------------------------------------------------------- *)
  (* the decoupled scalar filter: one coordinate = (position mean, velocity mean, a, b, c)            *)

  Record coord := { c_m : T; c_v : T; c_a : T; c_b : T; c_c : T }.

  Definition sc_init (z sp sv : T) : coord :=
    {| c_m := z; c_v := 0; c_a := sq sp; c_b := 0; c_c := sq sv |}.

  Definition sc_predict (sp sv : T) (s : coord) : coord :=
    {| c_m := c_m s + c_v s;
       c_v := c_v s;
       c_a := ((c_a s + c_b s) + (c_b s + c_c s)) + sq sp;
       c_b := c_b s + c_c s;
       c_c := c_c s + sq sv |}.

  Definition sc_update (sr z : T) (s : coord) : coord :=
    let s_ := c_a s + sq sr in
    let y := z - c_m s in
    {| c_m := c_m s + (c_a s / s_) * y;
       c_v := c_v s + (c_b s / s_) * y;
       c_a := c_a s - (c_a s * c_a s) / s_;
       c_b := c_b s - (c_a s * c_b s) / s_;
       c_c := c_c s - (c_b s * c_b s) / s_ |}.

  (* the n coordinates of a filter state, and back *)
  Definition sc_means (cs : list coord) : vec :=
    vtab n2 (fun i => if Nat.ltb i n then c_m (nth i cs (sc_init 0 0 0))
                      else c_v (nth (i - n)%nat cs (sc_init 0 0 0))).

  Definition sf_initiate (z : vec) : list coord :=
    let std := init_std F z in
    map (fun i => sc_init (vget z i) (vget std i) (vget std (n + i))) (seq O n).

  Definition sf_predict (cs : list coord) : list coord :=
    let std := motion_std F (sc_means cs) in
    map (fun i => sc_predict (vget std i) (vget std (n + i)) (nth i cs (sc_init 0 0 0))) (seq O n).

  Definition sf_update (cs : list coord) (z : vec) : list coord :=
    let std := proj_std F (sc_means cs) in
    map (fun i => sc_update (vget std i) (vget z i) (nth i cs (sc_init 0 0 0))) (seq O n).

  Definition sf_step (cs : list coord) (op : kop) : list coord :=
    match op with
    | Predict => sf_predict cs
    | Update z => sf_update cs z
    end.

  Definition sf_run (cs : list coord) (ops : list kop) : list coord := fold_left sf_step ops cs.

  Fixpoint sf_trace (cs : list coord) (ops : list kop) : list (list coord) :=
    match ops with
    | [] => []
    | op :: r => let cs' := sf_step cs op in cs' :: sf_trace cs' r
    end.

  (* abstraction: the coordinates of a matrix state *)
  Definition coords_of (st : kstate) : list coord :=
    map (fun i => {| c_m := vget (mean st) i; c_v := vget (mean st) (n + i);
                     c_a := mget (cov st) i i; c_b := mget (cov st) i (n + i);
                     c_c := mget (cov st) (n + i) (n + i) |}) (seq O n).

  (* concretisation: the block matrix [[A,B],[B,C]] with A, B, C diagonal *)
  Definition state_of (cs : list coord) : kstate :=
    let c := fun i => nth i cs (sc_init 0 0 0) in
    {| mean := sc_means cs;
       cov := mtab n2 n2 (fun i j =>
                if Nat.eqb i j then (if Nat.ltb i n then c_a (c i) else c_c (c (i - n)%nat))
                else if Nat.eqb j (n + i) then c_b (c i)
                else if Nat.eqb i (n + j) then c_b (c j)
                else 0) |}.

  (* squared Mahalanobis distance in scalar form *)
  Definition sf_distance (cs : list coord) (z : vec) : T :=
    let std := proj_std F (sc_means cs) in
    sum n (fun i => let s := nth i cs (sc_init 0 0 0) in
                    sq (vget z i - c_m s) / (c_a s + sq (vget std i))).

End Kalman.

Arguments vget {Ops} v i.
Arguments mget {Ops} M i j.
Arguments mean {Ops} k.
Arguments cov {Ops} k.
Arguments Predict {Ops}.
Arguments Update {Ops} z.
Arguments c_m {Ops} c.
Arguments c_v {Ops} c.
Arguments c_a {Ops} c.
Arguments c_b {Ops} c.
Arguments c_c {Ops} c.

(* -------------------------------------------------------------------------------------------------- *)
(* the two concrete filters                                                                            *)

Section Filters.
  Variable Ops : NumOps.
  Local Notation T := (T Ops).
  Local Infix "*" := (mul Ops).

  (* the DeepSORT multipliers (see the header: pinned, part of the specification) *)
  Definition K_INIT_POS : Q := 2.              (* initiate: std_position(2.0, .., h) *)
  Definition K_INIT_VEL : Q := 10.             (* initiate: std_velocity(10.0, .., h) *)
  Definition ASPECT_STD_POS : Q := 1 # 100.    (* 1e-2: aspect position std (initiate, predict) *)
  Definition ASPECT_STD_VEL : Q := 1 # 100000. (* 1e-5: aspect velocity std (initiate, predict) *)
  Definition ASPECT_STD_PROJ : Q := 1 # 10.    (* 1e-1: aspect measurement std (project) *)

  (* fn std_position(&self, k, cnst, p) = let w = k * weight * p; [w, w, w, cnst, w]  (same for velocity) *)
  Definition box_std (weight k cnst p : T) : list T :=
    let w := (k * weight) * p in [w; w; w; cnst; w].

  (* Universal2DBoxKalmanFilter::new(position_weight, velocity_weight);
     measurement / mean layout: [xc; yc; angle (None = 0); aspect; height] *)
  Definition box_filter (wp wv : T) : kfilter Ops :=
    {| kdim := 5;
       init_std := fun z => box_std wp (of_Q Ops K_INIT_POS) (of_Q Ops ASPECT_STD_POS) (vget z 4)
                            ++ box_std wv (of_Q Ops K_INIT_VEL) (of_Q Ops ASPECT_STD_VEL) (vget z 4);
       motion_std := fun m => box_std wp (one Ops) (of_Q Ops ASPECT_STD_POS) (vget m 4)
                              ++ box_std wv (one Ops) (of_Q Ops ASPECT_STD_VEL) (vget m 4);
       proj_std := fun m => box_std wp (one Ops) (of_Q Ops ASPECT_STD_PROJ) (vget m 4) |}.

  (* fn std_position(&self, k) = let w = k * weight; [w, w] *)
  Definition point_std (weight k : T) : list T := let w := k * weight in [w; w].

  (* Point2DKalmanFilter::new(position_weight, velocity_weight); measurement [x; y] *)
  Definition point_filter (wp wv : T) : kfilter Ops :=
    {| kdim := 2;
       init_std := fun _ => point_std wp (of_Q Ops K_INIT_POS) ++ point_std wv (of_Q Ops K_INIT_VEL);
       motion_std := fun _ => point_std wp (one Ops) ++ point_std wv (one Ops);
       proj_std := fun _ => point_std wp (one Ops) |}.

  (* Vec2DKalmanFilter: the point filter mapped over the points *)
  Definition vec_initiate (wp wv : T) (pts : list (vec Ops)) : list (kstate Ops) :=
    map (g_initiate Ops (point_filter wp wv)) pts.
  Definition vec_predict (wp wv : T) (sts : list (kstate Ops)) : list (kstate Ops) :=
    map (g_predict Ops (point_filter wp wv)) sts.
  (* state.iter().zip(points.iter()).map(|(s, p)| self.f.update(s, p)) ; the lengths are asserted equal *)
  Definition vec_update (wp wv : T) (sts : list (kstate Ops)) (pts : list (vec Ops)) : list (kstate Ops) :=
    map (fun sp => g_update Ops (point_filter wp wv) (fst sp) (snd sp)) (combine sts pts).

  (* distance: state.iter().zip(points.iter()).map(|(s, p)| self.f.distance(s, p)) ; lengths asserted equal.
     EVERY point uses the Cholesky factor of ITS OWN projected covariance. *)
  Definition vec_distance (sqrtT : T -> T) (wp wv : T) (sts : list (kstate Ops)) (pts : list (vec Ops)) : list T :=
    map (fun sp => g_distance Ops (point_filter wp wv) sqrtT (fst sp) (snd sp)) (combine sts pts).
  (* the same in the sqrt-free form (diagonal innovation covariance) *)
  Definition vec_distance_diag (wp wv : T) (sts : list (kstate Ops)) (pts : list (vec Ops)) : list T :=
    map (fun sp => g_distance_diag Ops (point_filter wp wv) (fst sp) (snd sp)) (combine sts pts).

  Inductive vop := VPredict | VUpdate (pts : list (vec Ops)).

  Definition vec_step (wp wv : T) (sts : list (kstate Ops)) (op : vop) : list (kstate Ops) :=
    match op with
    | VPredict => vec_predict wp wv sts
    | VUpdate pts => vec_update wp wv sts pts
    end.

  Definition vec_run (wp wv : T) (sts : list (kstate Ops)) (ops : list vop) : list (kstate Ops) :=
    fold_left (vec_step wp wv) ops sts.

  (* the history of point k inside a vector history *)
  Definition vop_at (k : nat) (op : vop) : kop Ops :=
    match op with
    | VPredict => Predict
    | VUpdate pts => Update (nth k pts [])
    end.

  (* make_prediction (trackers/kalman_prediction.rs): initiate on the first observation, then for EVERY
     observation (the first included) one predict followed by one update with that observation. *)
  Definition make_prediction_ops (obs : list (vec Ops)) : list (kop Ops) :=
    flat_map (fun z => [Predict; Update z]) obs.

  (* ------------------------------------------------------------------------------------------------ *)
  (* cost conversion (hand model of the two calculate_cost functions; constants from SimilariGen.Consts) *)

  Definition chi2 (k : nat) : T := of_Q Ops (nth k CHI2INV95 0%Q).
  Definition chi2_upper : T := of_Q Ops CHI2_UPPER_BOUND.

  (* if !inverted { if distance > GATE { UPPER } else { distance } }
     else if distance > GATE { 0.0 } else { UPPER - distance } *)
  Definition cost_with_gate (gate : T) (distance : T) (inverted : bool) : T :=
    if negb inverted then
      (if ltb Ops gate distance then chi2_upper else distance)
    else if ltb Ops gate distance then zero Ops
    else sub Ops chi2_upper distance.

  Definition box_calculate_cost := cost_with_gate (chi2 4).     (* CHI2INV95[4] *)
  Definition point_calculate_cost := cost_with_gate (chi2 1).   (* CHI2INV95[1] *)
  (* Vec2DKalmanFilter::calculate_cost: distances.iter().map(|d| Point2DKalmanFilter::calculate_cost(d, inverted)) *)
  Definition vec_calculate_cost (distances : list T) (inverted : bool) : list T :=
    map (fun d => point_calculate_cost d inverted) distances.

End Filters.

Arguments VPredict {Ops}.
Arguments VUpdate {Ops} pts.

(* -------------------------------------------------------------------------------------------------- *)
(* execution helpers for the correspondence (tools/props/c07.py)                                       *)

(* exact read-out of a binary64: value = m * 2^e; (0, 99999) = NaN, (+-1, 99999) = infinities *)
Definition f2zz (f : float) : Z * Z :=
  match Prim2SF f with
  | S754_zero _ => (0, 0)%Z
  | S754_infinity s => ((if s then -1 else 1), 99999)%Z
  | S754_nan => (0, 99999)%Z
  | S754_finite s m e => ((if s then Zneg m else Zpos m), e)
  end.

(* exact for dyadic q of moderate size (all inputs are f32 values).  Base/Num.v's of_Q is only used on
   non-negative numerators here (its float_of_Z loses the sign of negative integers). *)
Definition fq (q : Q) : float :=
  match Qnum q with
  | Zneg p => PrimFloat.opp (of_Q Fops (Zpos p # Qden q))
  | _ => of_Q Fops q
  end.

(* The trace of a history, printed sparsely (printing, not computing, dominates the cost): mean, covariance
   and the distance of a probe measurement after the steps listed in [covsteps] (ascending; [probes] is aligned
   with it; step 0 = after initiate, step k = after the k-th operation); nothing for the other steps. *)
Section Out.
  Variable Ops : NumOps.
  Variable A : Type.
  Variable out : T Ops -> A.
  Variable dist : kfilter Ops -> kstate Ops -> vec Ops -> list (T Ops).

  Definition st_out (F : kfilter Ops) (st : kstate Ops) (full : bool) (probe : vec Ops)
    : list A * list (list A) * list A :=
    ((if full then map out (mean st) else []),
     if full then map (map out) (cov st) else [],
     if full then map out (dist F st probe) else []).

  Fixpoint trace_out (F : kfilter Ops) (st : kstate Ops) (ops : list (kop Ops)) (k : nat)
           (covsteps : list nat) (probes : list (vec Ops)) : list (list A * list (list A) * list A) :=
    match ops with
    | [] => []
    | op :: r =>
        let st' := g_step Ops F st op in
        match covsteps, probes with
        | c :: cr, p :: pr =>
            if Nat.eqb c k then st_out F st' true p :: trace_out F st' r (S k) cr pr
            else st_out F st' false [] :: trace_out F st' r (S k) covsteps probes
        | _, _ => st_out F st' false [] :: trace_out F st' r (S k) [] []
        end
    end.

  Definition case_out (F : kfilter Ops) (z0 : vec Ops) (ops : list (kop Ops))
             (covsteps : list nat) (probes : list (vec Ops)) : list (list A * list (list A) * list A) :=
    let st0 := g_initiate Ops F z0 in
    match covsteps, probes with
    | O :: cr, p :: pr => st_out F st0 true p :: trace_out F st0 ops 1 cr pr
    | _, _ => st_out F st0 false [] :: trace_out F st0 ops 1 covsteps probes
    end.

  Definition ops_of (conv : Q -> T Ops) (l : list (option (list Q))) : list (kop Ops) :=
    map (fun o => match o with None => @Predict Ops | Some z => @Update Ops (map conv z) end) l.
End Out.

(* binary64 run: distances = [Cholesky + forward substitution (code shaped); sum y_i^2 / S_ii] *)
Definition f_case (F : kfilter Fops) (z0 : list Q) (ops : list (option (list Q)))
           (covsteps : list nat) (probes : list (list Q)) :=
  case_out Fops (Z * Z) f2zz
           (fun F st p => [g_distance Fops F PrimFloat.sqrt st p; g_distance_diag Fops F st p])
           F (map fq z0) (ops_of Fops fq ops) covsteps (map (map fq) probes).

(* exact rational run; numbers are printed as (numerator, denominator) *)
Definition qzz (q : Q) : Z * Z := (Qnum q, Zpos (Qden q)).
Definition q_case (F : kfilter Qops) (z0 : list Q) (ops : list (option (list Q)))
           (covsteps : list nat) (probes : list (list Q)) :=
  case_out Qops (Z * Z) qzz (fun F st p => [g_distance_diag Qops F st p])
           F z0 (ops_of Qops (fun q => q) ops) covsteps probes.

(* the matrix model and the scalar model agree on this history (exact rationals; proved in general in
   Proofs/KalmanProofs.v, evaluated here on the very cases of the correspondence) *)
Definition coord_eqb (x y : coord Qops) : bool :=
  Qeq_bool (c_m x) (c_m y) && Qeq_bool (c_v x) (c_v y) && Qeq_bool (c_a x) (c_a y)
  && Qeq_bool (c_b x) (c_b y) && Qeq_bool (c_c x) (c_c y).
Definition q_scalar_agrees (F : kfilter Qops) (z0 : list Q) (ops : list (option (list Q))) : bool :=
  let o := ops_of Qops (fun q => q) ops in
  let cs1 := coords_of Qops F (g_run Qops F (g_initiate Qops F z0) o) in
  let cs2 := sf_run Qops F (sf_initiate Qops F z0) o in
  Nat.eqb (length cs1) (length cs2) && forallb (fun p => coord_eqb (fst p) (snd p)) (combine cs1 cs2).

(* one step / one distance evaluated ON A GIVEN STATE (the implementation's own previous state, passed as exact
   rationals): the sharp, rounding-level part of the correspondence *)
Definition q_state (m : list Q) (P : list (list Q)) : kstate Qops := Build_kstate Qops m P.

Definition q_step_on (F : kfilter Qops) (m : list Q) (P : list (list Q)) (op : option (list Q))
  : list (Z * Z) * list (list (Z * Z)) :=
  let st := g_step Qops F (q_state m P)
                   (match op with None => @Predict Qops | Some z => @Update Qops z end) in
  (map qzz (mean st), map (map qzz) (cov st)).

Definition q_dist_on (F : kfilter Qops) (m : list Q) (P : list (list Q)) (z : list Q) : Z * Z :=
  qzz (g_distance_diag Qops F (q_state m P) z).

Definition f_dist_on (F : kfilter Fops) (m : list Q) (P : list (list Q)) (z : list Q) : list (Z * Z) :=
  let st : kstate Fops := Build_kstate Fops (map fq m) (map (map fq) P) in
  [f2zz (g_distance Fops F PrimFloat.sqrt st (map fq z)); f2zz (g_distance_diag Fops F st (map fq z))].
