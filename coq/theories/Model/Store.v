(* Model of the sharded track store: /repo/src/track/store.rs (TrackStore) and store/builder.rs.
   Properties C09 and C11 (store part).

   The store is `sharded := list (list (N * track))`: one association list (HashMap<u64, Track>) per shard,
   the shard of an id is `id mod n` (get_store / get_executor).  The store operations are written ONCE over a
   small map interface (find / set / del / all / clear / stats) and instantiated twice:
     - with the sharded primitives  -> [sstep], the model of the code;
     - with a plain association list -> [mstep], the specification "a finite map from track id to track".
   Theorem store_refines_map (Proofs/StoreProofs.v) relates the two for every operation sequence.

   merge_external = merge_external_noblock followed by FutureMergeResponse::get; the worker thread that
   executes Commands::Merge is modelled by [g_merge_cmd] (the queue/mutex race between a pending merge and a
   direct shard access is outside the sequential reading of the property: get() is always called before the
   next operation).  Notifications are counted (last component of every result). *)
From Coq Require Import List NArith Bool Arith Lia.
From Similari Require Import Model.Track.
Import ListNotations.

Inductive bstatus := BReady | BPending | BWasted | BErr.     (* Result<TrackStatus> of TrackAttributes::baked *)

Fixpoint set_nth {A} (k : nat) (x : A) (l : list A) {struct l} : list A :=
  match l, k with
  | [], _ => []
  | _ :: r, O => x :: r
  | y :: r, S k' => y :: set_nth k' x r
  end.

Section Store.
  Variables TA UPD OA FT MS W LQ : Type.
  Notation track := (track TA OA FT MS).
  Notation observation := (observation OA FT).
  Notation obsdb := (obsdb OA FT).
  Notation obs_spec := (obs_spec UPD OA FT).

  Variable cb_apply : W -> UPD -> TA -> W * bool * TA.
  Variable cb_merge : W -> TA -> TA -> W * bool * TA.
  Variable cb_optimize :
    W -> MS -> N -> list N -> TA -> list observation -> nat -> bool -> W * bool * MS * TA * list observation.
  Variable cb_baked : TA -> obsdb -> bstatus.
  Variable cb_lookup : LQ -> TA -> obsdb -> list N -> bool.

  (* TrackStore { metric, default_attributes, .. }: cloned into every track the store creates *)
  Variable dflt_metric : MS.
  Variable dflt_attrs : TA.

  Notation add_observation := (add_observation cb_apply cb_optimize).
  Notation merge := (merge cb_merge cb_optimize).
  Notation build := (build cb_apply cb_optimize).

  Definition baked (t : track) : bstatus := cb_baked (attrs t) (obs t).

  Inductive sop :=
  | AddTrack (t : track)
  | Add (id cls : N) (fa : option OA) (f : option FT) (u : option UPD)
  | Fetch (ids : list N)
  | MergeOwned (dst src : N) (cls : option (list N)) (rm mh : bool)
  | MergeExt (dst : N) (t : track) (cls : option (list N)) (mh : bool)
  | MergeExtNoblock (dst : N) (t : track) (cls : option (list N)) (mh : bool)  (* .._noblock(..) ; get() *)
  | Lookup (q : LQ)
  | FindUsable
  | Clear
  | Stats
  | NewTrack (id : N).

  Inductive sres :=
  | RId (r : result N)
  | RUnit (r : result unit)
  | RTracks (l : list track)
  | ROwned (r : result (option track))
  | RStatus (l : list (N * bstatus))
  | RStats (l : list N)
  | RBuilt (r : result track).

  (* ---------------------------------------------------------------------------------------------- *)
  (* The operations over a map interface                                                              *)

  Section Generic.
    Variable M : Type.
    Variable mfind : M -> N -> option track.        (* get_store(id).get(&id) *)
    Variable mset : M -> N -> track -> M.           (* get_store(id).insert(id, t) / write through get_mut *)
    Variable mdel : M -> N -> M.                    (* get_store(id).remove(&id) *)
    Variable mall : M -> list (N * track).          (* every shard's (key, track), in some order *)
    Variable mclear : M -> M.
    Variable mstats : M -> list N.

    (* TrackStore::add_track *)
    Definition g_add_track (m : M) (t : track) : result N * M :=
      let track_id := tid t in
      match mfind m track_id with
      | None => (Ok track_id, mset m track_id t)
      | Some _ => (Err (EDuplicate track_id), m)
      end.

    (* TrackStore::add *)
    Definition g_add (w : W) (m : M) (track_id cls : N) (fa : option OA) (f : option FT) (u : option UPD)
      : W * result unit * M * nat :=
      match mfind m track_id with
      | None =>
          (* self.new_track(track_id).observation((..)).build()?  ;  tracks.insert(track_id, t) *)
          let '(w1, r, n) := build w track_id dflt_metric dflt_attrs [(cls, fa, f, u)] in
          match r with
          | Ok t => (w1, Ok tt, mset m track_id t, n)
          | Err e => (w1, Err e, m, n)
          end
      | Some t =>
          (* track.add_observation(..)?  on the stored track (get_mut) *)
          let '(w1, r, t1, n) := add_observation w t cls fa f u in
          (w1, r, mset m track_id t1, n)
      end.

    (* TrackStore::fetch_tracks *)
    Fixpoint g_fetch (m : M) (ids : list N) : list track * M :=
      match ids with
      | [] => ([], m)
      | id :: r =>
          match mfind m id with
          | Some t => let (ts, m1) := g_fetch (mdel m id) r in (t :: ts, m1)
          | None => g_fetch m r
          end
      end.

    (* Commands::Merge executed by the worker of shard (dest_id mod n); `classes` is the Vec sent
       (empty when the caller passed None) *)
    Definition g_merge_cmd (w : W) (m : M) (dest_id : N) (src : track) (classes : list N) (mh : bool)
      : W * result unit * M * nat :=
      match mfind m dest_id with
      | Some dest =>
          if (dest_id =? tid src)%N then (w, Err (ESameTrack dest_id), m, 0%nat)
          else
            let cl := match classes with [] => feature_classes src | _ :: _ => classes end in
            let '(w1, r, dest1, n) := merge w dest src cl mh in
            (w1, r, mset m dest_id dest1, n)
      | None => (w, Err (ENotFound dest_id), m, 0%nat)
      end.

    (* merge_external_noblock: sends the command; the future carries what the worker answers *)
    Definition g_merge_external_noblock (w : W) (m : M) (dest_id : N) (src : track)
               (classes : option (list N)) (mh : bool) : W * result unit (* the future *) * M * nat :=
      g_merge_cmd w m dest_id src (match classes with Some c => c | None => [] end) mh.

    (* FutureMergeResponse::get: Ok(Results::MergeResult(res)) => res *)
    Definition future_get (fut : result unit) : result unit := fut.

    (* TrackStore::merge_external *)
    Definition g_merge_external (w : W) (m : M) (dest_id : N) (src : track)
               (classes : option (list N)) (mh : bool) : W * result unit * M * nat :=
      let '(w1, fut, m1, n) := g_merge_external_noblock w m dest_id src classes mh in
      (w1, future_get fut, m1, n).

    (* TrackStore::merge_owned *)
    Definition g_merge_owned (w : W) (m : M) (dest_id src_id : N) (classes : option (list N))
               (remove_src_if_ok mh : bool) : W * result (option track) * M * nat :=
      let (srcs, m1) := g_fetch m [src_id] in
      match srcs with
      | [] => (w, Err (ENotFound src_id), m1, 0%nat)
      | src :: _ =>
          let '(w1, r, m2, n) := g_merge_external w m1 dest_id src classes mh in
          match r with
          | Ok _ =>
              if negb remove_src_if_ok then (w1, Ok None, snd (g_add_track m2 src), n)
              else (w1, Ok (Some src), m2, n)
          | Err e => (w1, Err e, snd (g_add_track m2 src), n)
          end
      end.

    (* TrackStore::lookup: Commands::Lookup on every shard *)
    Definition g_lookup (m : M) (q : LQ) : list (N * bstatus) :=
      map (fun p => (tid (snd p), baked (snd p)))
          (filter (fun p => track_lookup cb_lookup q (snd p)) (mall m)).

    (* TrackStore::find_usable: Commands::FindBaked on every shard *)
    Definition g_find_usable (m : M) : list (N * bstatus) :=
      flat_map (fun p => match baked (snd p) with
                         | BPending => []
                         | other => [(fst p, other)]
                         end) (mall m).

    Definition gstep (w : W) (m : M) (o : sop) : W * sres * M * nat :=
      match o with
      | AddTrack t => let (r, m1) := g_add_track m t in (w, RId r, m1, 0%nat)
      | Add id cls fa f u => let '(w1, r, m1, n) := g_add w m id cls fa f u in (w1, RUnit r, m1, n)
      | Fetch ids => let (ts, m1) := g_fetch m ids in (w, RTracks ts, m1, 0%nat)
      | MergeOwned dst src cls rm mh =>
          let '(w1, r, m1, n) := g_merge_owned w m dst src cls rm mh in (w1, ROwned r, m1, n)
      | MergeExt dst t cls mh =>
          let '(w1, r, m1, n) := g_merge_external w m dst t cls mh in (w1, RUnit r, m1, n)
      | MergeExtNoblock dst t cls mh =>
          let '(w1, fut, m1, n) := g_merge_external_noblock w m dst t cls mh in
          (w1, RUnit (future_get fut), m1, n)
      | Lookup q => (w, RStatus (g_lookup m q), m, 0%nat)
      | FindUsable => (w, RStatus (g_find_usable m), m, 0%nat)
      | Clear => (w, RUnit (Ok tt), mclear m, 0%nat)
      | Stats => (w, RStats (mstats m), m, 0%nat)
      | NewTrack id =>
          (* self.new_track(id).build() *)
          let '(w1, r, n) := build w id dflt_metric dflt_attrs [] in (w1, RBuilt r, m, n)
      end.

    Fixpoint grun (w : W) (m : M) (ops : list sop) : W * list (sres * nat) * M :=
      match ops with
      | [] => (w, [], m)
      | o :: r => let '(w1, res, m1, n) := gstep w m o in
                  let '(w2, out, m2) := grun w1 m1 r in (w2, (res, n) :: out, m2)
      end.
  End Generic.

  (* ---------------------------------------------------------------------------------------------- *)
  (* The sharded store                                                                                *)

  Definition shard := list (N * track).
  Definition sharded := list shard.                              (* length = number of shards *)

  Definition nshards (st : sharded) : N := N.of_nat (length st).
  (* get_store(id): id % num_shards *)
  Definition shard_ix (st : sharded) (id : N) : nat := N.to_nat (id mod nshards st).
  Definition get_shard (st : sharded) (k : nat) : shard := nth k st [].

  Definition find (st : sharded) (id : N) : option track := alookup id (get_shard st (shard_ix st id)).
  Definition sset (st : sharded) (id : N) (t : track) : sharded :=
    let k := shard_ix st id in set_nth k (aset id t (get_shard st k)) st.
  Definition sdel (st : sharded) (id : N) : sharded :=
    let k := shard_ix st id in set_nth k (aremove id (get_shard st k)) st.
  Definition sall (st : sharded) : list (N * track) := concat st.
  Definition sclear (st : sharded) : sharded := map (fun _ => []) st.
  (* shard_stats *)
  Definition sstats (st : sharded) : list N := map (fun s => N.of_nat (length s)) st.

  Definition empty_store (n : nat) : sharded := repeat [] n.      (* TrackStore::new(.., shards = n) *)

  Definition add_track := g_add_track sharded find sset.
  Definition add := g_add sharded find sset.
  Definition fetch_tracks := g_fetch sharded find sdel.
  Definition merge_external_noblock := g_merge_external_noblock sharded find sset.
  Definition merge_external := g_merge_external sharded find sset.
  Definition merge_owned := g_merge_owned sharded find sset sdel.
  Definition lookup := g_lookup sharded sall.
  Definition find_usable := g_find_usable sharded sall.

  Definition sstep : W -> sharded -> sop -> W * sres * sharded * nat :=
    gstep sharded find sset sdel sall sclear sstats.
  Definition srun : W -> sharded -> list sop -> W * list (sres * nat) * sharded :=
    grun sharded find sset sdel sall sclear sstats.

  (* ---------------------------------------------------------------------------------------------- *)
  (* The specification: a finite map id -> track as one association list                              *)

  Definition fmap := list (N * track).
  Definition mstep : W -> fmap -> sop -> W * sres * fmap * nat :=
    gstep fmap (fun m id => alookup id m) (fun m id t => aset id t m) (fun m id => aremove id m)
          (fun m => m) (fun _ => []) (fun m => [N.of_nat (length m)]).
  Definition mrun : W -> fmap -> list sop -> W * list (sres * nat) * fmap :=
    grun fmap (fun m id => alookup id m) (fun m id t => aset id t m) (fun m id => aremove id m)
         (fun m => m) (fun _ => []) (fun m => [N.of_nat (length m)]).

  (* abs: the map a sharded store stands for (union of the shards) *)
  Definition abs (st : sharded) : fmap := concat st.

  (* ---------------------------------------------------------------------------------------------- *)
  (* Script layer used by the correspondence runs (execution only).                                   *)

  Inductive xop :=
  | XOp (o : sop)
  (* let t = store.new_track(id).observation(..)*.build()?; store.add_track(t) *)
  | XBuildAdd (id : N) (l : list obs_spec)
  (* let t = store.new_track(id).observation(..)*.build()?; store.merge_external[_noblock](dst, t, cls, mh) *)
  (* [order]: ghost, the hash-map iteration order of the classes of the freshly built source *)
  | XMergeBuilt (noblock : bool) (dst id : N) (l : list obs_spec) (cls : option (list N)) (mh : bool)
                (order : list N)
  (* ghost step: fixes the (unspecified) hash-map iteration order of the classes of a stored track *)
  | XReorder (id : N) (order : list N).

  Inductive xres := XR (r : sres) | XBuildErr (e : err) | XGhost.

  Definition reorder_obs (order : list N) (o : obsdb) : obsdb :=
    flat_map (fun c => match alookup c o with Some v => [(c, v)] | None => [] end) order
    ++ filter (fun p => negb (existsb (N.eqb (fst p)) order)) o.

  Definition xstep (w : W) (st : sharded) (o : xop) : W * xres * sharded * nat :=
    match o with
    | XOp o => let '(w1, r, st1, n) := sstep w st o in (w1, XR r, st1, n)
    | XBuildAdd id l =>
        let '(w1, r, n) := build w id dflt_metric dflt_attrs l in
        match r with
        | Err e => (w1, XBuildErr e, st, n)
        | Ok t => let '(w2, r2, st2, n2) := sstep w1 st (AddTrack t) in (w2, XR r2, st2, (n + n2)%nat)
        end
    | XMergeBuilt noblock dst id l cls mh order =>
        let '(w1, r, n) := build w id dflt_metric dflt_attrs l in
        match r with
        | Err e => (w1, XBuildErr e, st, n)
        | Ok t0 =>
            let t := set_obs t0 (reorder_obs order (obs t0)) in
            let '(w2, r2, st2, n2) :=
              sstep w1 st (if noblock then MergeExtNoblock dst t cls mh else MergeExt dst t cls mh) in
            (w2, XR r2, st2, (n + n2)%nat)
        end
    | XReorder id order =>
        match find st id with
        | Some t => (w, XGhost, sset st id (set_obs t (reorder_obs order (obs t))), 0%nat)
        | None => (w, XGhost, st, 0%nat)
        end
    end.

  Fixpoint xrun (w : W) (st : sharded) (ops : list xop) : list (xres * nat * sharded) :=
    match ops with
    | [] => []
    | o :: r => let '(w1, res, st1, n) := xstep w st o in (res, n, st1) :: xrun w1 st1 r
    end.
End Store.

Arguments AddTrack {TA UPD OA FT MS LQ}.
Arguments Add {TA UPD OA FT MS LQ}.
Arguments Fetch {TA UPD OA FT MS LQ}.
Arguments MergeOwned {TA UPD OA FT MS LQ}.
Arguments MergeExt {TA UPD OA FT MS LQ}.
Arguments MergeExtNoblock {TA UPD OA FT MS LQ}.
Arguments Lookup {TA UPD OA FT MS LQ}.
Arguments FindUsable {TA UPD OA FT MS LQ}.
Arguments Clear {TA UPD OA FT MS LQ}.
Arguments Stats {TA UPD OA FT MS LQ}.
Arguments NewTrack {TA UPD OA FT MS LQ}.
Arguments RId {TA OA FT MS}.
Arguments RUnit {TA OA FT MS}.
Arguments RTracks {TA OA FT MS}.
Arguments ROwned {TA OA FT MS}.
Arguments RStatus {TA OA FT MS}.
Arguments RStats {TA OA FT MS}.
Arguments RBuilt {TA OA FT MS}.
Arguments XOp {TA UPD OA FT MS LQ}.
Arguments XBuildAdd {TA UPD OA FT MS LQ}.
Arguments XMergeBuilt {TA UPD OA FT MS LQ}.
Arguments XReorder {TA UPD OA FT MS LQ}.
Arguments XR {TA OA FT MS}.
Arguments XBuildErr {TA OA FT MS}.
Arguments XGhost {TA OA FT MS}.

(* ================================================================================================ *)
(* The scripted callback algebra used for EXECUTION (vm_compute) in the correspondence runs; the     *)
(* same algebra is implemented over the crate's traits in harness/src/bin/trackstore.rs.             *)
(* It is an instantiation of the Sections above; no theorem depends on it.                            *)
(*                                                                                                    *)
(*   attributes  TA  = (u, m, o)      three counters                                                  *)
(*   update      UPD = (add, fail)                                                                    *)
(*   observation OA  = N,  feature FT = N (the first lane of a one-block feature)                     *)
(*   metric      MS  = (calls, acc)                                                                   *)
(*   world       W   = invocation counters of apply / merge / optimize and, per kind, the list of     *)
(*                     (0-based, global) invocation indices at which the callback fails               *)
(* Every mutating callback first mutates EVERYTHING it can reach and then reports failure.            *)

Module Alg.
  Open Scope N_scope.

  Definition TA := (N * N * N)%type.
  Definition UPD := (N * bool)%type.
  Definition OA := N.
  Definition FT := N.
  Definition MS := (N * N)%type.
  Definition LQ := (N * option N * option N)%type.
  Record world := mkW { na : N; nm : N; no : N; fa : list N; fm : list N; fo : list N }.
  Definition W := world.

  Definition obsv := Track.observation OA FT.
  Definition trk := Track.track TA OA FT MS.

  Definition mem (k : N) (l : list N) : bool := existsb (N.eqb k) l.
  Definition nlen {A} (l : list A) : N := N.of_nat (length l).

  Definition apply (w : W) (u : UPD) (a : TA) : W * bool * TA :=
    let '(au, am, ao) := a in
    let (add, fail) := u in
    let idx := na w in
    (mkW (idx + 1) (nm w) (no w) (fa w) (fm w) (fo w),
     negb (fail || mem idx (fa w)),
     (au + add, am + 1, ao)).

  Definition amerge (w : W) (a b : TA) : W * bool * TA :=
    let '(au, am, ao) := a in
    let '(bu, bm, bo) := b in
    let idx := nm w in
    (mkW (na w) (idx + 1) (no w) (fa w) (fm w) (fo w),
     negb (mem idx (fm w) || ((au + bu) mod 5 =? 4)),
     (au + bu, am + bm + 1, ao + bo)).

  (* sort key of an observation: by attribute value, None lowest *)
  Definition okey (ob : obsv) : N := match fst ob with Some x => x + 1 | None => 0 end.

  (* Vec::sort_by(|a, b| key(b).cmp(&key(a))): stable, descending *)
  Fixpoint oinsert (x : obsv) (l : list obsv) : list obsv :=
    match l with
    | [] => [x]
    | y :: r => if okey y <=? okey x then x :: l else y :: oinsert x r
    end.
  Definition osort (l : list obsv) : list obsv := fold_right oinsert [] l.

  Definition CAP : nat := 3%nat.
  Definition POISON : N := 7.
  Definition DRAIN : N := 9.

  Definition optimize (w : W) (ms : MS) (cls : N) (h : list N) (a : TA) (v : list obsv) (prev : nat)
             (is_merge : bool) : W * bool * MS * TA * list obsv :=
    let '(au, am, ao) := a in
    let (calls, acc) := ms in
    let idx := no w in
    let kept := firstn CAP (osort v) in
    (* "drain": a kept observation with attribute DRAIN empties the whole class vector (the key stays) *)
    let v' := if existsb (fun ob => match fst ob with Some x => x =? DRAIN | None => false end) kept then [] else kept in
    (mkW (na w) (nm w) (idx + 1) (fa w) (fm w) (fo w),
     negb (mem idx (fo w) || existsb (fun ob => match fst ob with Some x => x =? POISON | None => false end) v'),
     (calls + 1, acc + cls + N.of_nat prev + (if is_merge then 1 else 0) + 3 * nlen h + (last h 0) mod 97),
     (au, am + nlen h, ao + nlen v),
     v').

  Definition total_obs (o : Track.obsdb OA FT) : N := fold_right (fun p s => nlen (snd p) + s) 0 o.

  Definition baked (a : TA) (o : Track.obsdb OA FT) : bstatus :=
    let '(au, am, ao) := a in
    if au mod 5 =? 3 then BErr
    else if total_obs o =? 0 then BPending
    else if am mod 3 =? 2 then BWasted
    else if 2 <=? total_obs o then BReady else BPending.

  Definition lookup (q : LQ) (a : TA) (o : Track.obsdb OA FT) (h : list N) : bool :=
    let '(min_u, qc, qh) := q in
    let '(au, am, ao) := a in
    (min_u <=? au)
    && (match qc with None => true | Some c => ahas c o end)
    && (match qh with None => true | Some x => mem x h end).

  Definition dflt_metric : MS := (0, 0).
  Definition dflt_attrs : TA := (0, 0, 0).

  (* -- dumps: everything as nested tuples / lists of N (what coqc prints and the Python side parses) -- *)

  Definition dump_track (t : trk) := (attrs t, tid t, obs t, mstate t, hist t).

  Definition ecode (e : err) : N * N :=
    match e with
    | EApply => (1, 0) | EAttrMerge => (2, 0) | EOptimize => (3, 0)
    | EDuplicate id => (4, id) | ENotFound id => (5, id) | ESameTrack id => (6, id)
    end.
  Definition rcode {A} (r : result A) : N * N := match r with Ok _ => (0, 0) | Err e => ecode e end.
  Definition scode (s : bstatus) : N := match s with BReady => 0 | BPending => 1 | BWasted => 2 | BErr => 3 end.

  Definition dump_sres (r : sres TA OA FT MS) :=
    match r with
    | RId r => (1, rcode r, match r with Ok id => [id] | Err _ => [] end, @nil (N * N), @nil _)
    | RUnit r => (2, rcode r, [], [], [])
    | RTracks l => (3, (0, 0), [], [], map dump_track l)
    | ROwned r => (4, rcode r, [], [], match r with Ok (Some t) => [dump_track t] | _ => [] end)
    | RStatus l => (5, (0, 0), [], map (fun p => (fst p, scode (snd p))) l, [])
    | RStats l => (6, (0, 0), l, [], [])
    | RBuilt r => (7, rcode r, [], [], match r with Ok t => [dump_track t] | Err _ => [] end)
    end.

  Definition dump_xres (r : xres TA OA FT MS) :=
    match r with
    | XR r => dump_sres r
    | XBuildErr e => (8, ecode e, [], [], [])
    | XGhost => (9, (0, 0), [], [], [])
    end.

  Definition plan (pa pm po : list N) : W := mkW 0 0 0 pa pm po.

  (* a store script: number of shards, fail plan, operations; prints result, notifications and ALL shards
     after every operation *)
  Definition run_store (n : nat) (w : W) (ops : list (xop TA UPD OA FT MS LQ)) :=
    map (fun s => let '(r, k, st) := s in (dump_xres r, N.of_nat k, map (map (fun p => (fst p, dump_track (snd p)))) st))
        (xrun TA UPD OA FT MS W LQ apply amerge optimize baked lookup dflt_metric dflt_attrs
              w (empty_store TA OA FT MS n) ops).

  (* a track script (Track API used directly) *)
  Definition run_track (w : W) (ops : list (top UPD OA FT)) :=
    map (fun s => let '(r, k, t) := s in
                  (match r with Some r => rcode r | None => (99, 0) end, N.of_nat k,
                   match t with Some t => [dump_track t] | None => [] end))
        (trun apply amerge optimize dflt_metric dflt_attrs w [] ops).
End Alg.
