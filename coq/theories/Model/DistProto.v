(* DistProto - interleaving model (L2) of the distance-query protocol of the sharded track store.

   Mirrors /repo/src/track/store.rs:
     - handle_store_ops, command Distances  ->  [visit] / [shard_distances]   (one worker, one command)
     - Track::distances (src/track.rs)      ->  [distances]
     - foreign_track_distances              ->  program [foreign_query]: one command per candidate per shard,
                                                count = shards x candidates
     - owned_track_distances (fixed shape)  ->  program [owned_query]: copy the queried tracks under the
                                                shard lock, then the foreign query; the store is not touched
     - track_distance.rs all()/iterators    ->  labels DRecvOk / DRecvErr: exactly [count] chunks are read
   The old shape of owned_track_distances (fetch out, enqueue, re-add) lives in module [Legacy] below together
   with the witness [owned_query_refuted].

   Everything the library leaves to the user (attribute compatibility, baked status, observations per class,
   the metric, postprocess_distances) is a Section variable: the theorems hold for all of them.
   Worker threads, crossbeam channels and the shard mutexes are modelled as: per-shard FIFO command queues,
   FIFO result channels, one atomic step per executed command (the worker holds the shard lock for the
   whole command). *)
From Coq Require Import List NArith Bool Arith Lia Permutation.
Import ListNotations.

Inductive status := Pending | Ready | Wasted | BakedErr.

Definition is_ready (s : status) : bool := match s with Ready => true | _ => false end.

Fixpoint set_nth {A} (k : nat) (x : A) (l : list A) {struct l} : list A :=
  match l, k with
  | [], _ => []
  | _ :: t, O => x :: t
  | h :: t, S k' => h :: set_nth k' x t
  end.

Inductive dlabel := DCopy | DEnq (k : nat) | DExec (k : nat) | DRecvOk | DRecvErr.

Section Dist.
  Variable track : Type.
  Variable OBS : Type.                                  (* one observation of a feature class *)
  Variable MV : Type.                                   (* (attribute_metric, feature_distance) *)
  Variable tid : track -> N.
  Variable compatible : track -> track -> bool.         (* candidate.attributes.compatible(other.attributes) *)
  Variable baked : track -> status.
  Variable observations : track -> N -> option (list OBS).
  Variable metric : N -> track -> OBS -> track -> OBS -> option MV.

  Definition res : Type := (N * N * MV)%type.           (* from, to, value *)
  Definition err : Type := (N * N * N)%type.            (* ObservationForClassNotFound(from, to, class) *)

  Variable postprocess : track -> list res -> list res. (* candidate.metric.postprocess_distances *)

  (* ---- Track::distances ------------------------------------------------------------------ *)
  Inductive dres := DOk (l : list res) | DIncompatible | DClassMissing (e : err).

  Definition pair_metric (cls : N) (c o : track) (lr : OBS * OBS) : list res :=
    match metric cls c (fst lr) o (snd lr) with
    | Some v => [(tid c, tid o, v)]
    | None => []
    end.

  Definition distances (c o : track) (cls : N) : dres :=
    if negb (compatible c o) then DIncompatible
    else match observations c cls, observations o cls with
         | Some l, Some r => DOk (flat_map (pair_metric cls c o) (list_prod l r))
         | _, _ => DClassMissing (tid c, tid o, cls)
         end.

  (* ---- one worker, one Distances command ---------------------------------------------------- *)
  Definition dist_item (c : track) (cls : N) (o : track) : option (list res + err) :=
    match distances c o cls with
    | DOk d => Some (inl (postprocess c d))
    | DIncompatible => None
    | DClassMissing e => Some (inr e)
    end.

  Definition visit (c : track) (cls : N) (only_baked : bool) (o : track) : option (list res + err) :=
    if N.eqb (tid c) (tid o) then None
    else if negb only_baked then dist_item c cls o
         else match baked o with
              | Ready => dist_item c cls o
              | _ => None
              end.

  Definition opt_list {A} (x : option A) : list A := match x with Some a => [a] | None => [] end.

  Definition oks (r : list res + err) : list res := match r with inl d => d | inr _ => [] end.
  Definition errs (r : list res + err) : list err := match r with inl _ => [] | inr e => [e] end.

  Definition shard_distances (c : track) (cls : N) (only_baked : bool) (shard : list track)
    : list res * list err :=
    let rs := flat_map (fun o => opt_list (visit c cls only_baked o)) shard in
    (flat_map oks rs, flat_map errs rs).

  (* ---- the specification: a direct reading of the property ------------------------------------ *)
  Definition eligible (c : track) (only_baked : bool) (o : track) : bool :=
    negb (N.eqb (tid c) (tid o)) && compatible c o && (negb only_baked || is_ready (baked o)).

  Definition pair_ok (c : track) (cls : N) (o : track) : list res :=
    match observations c cls, observations o cls with
    | Some l, Some r => postprocess c (flat_map (pair_metric cls c o) (list_prod l r))
    | _, _ => []
    end.

  Definition pair_err (c : track) (cls : N) (o : track) : list err :=
    match observations c cls, observations o cls with
    | Some _, Some _ => []
    | _, _ => [(tid c, tid o, cls)]
    end.

  (* [all] = every stored track (the union of the shards), [cands] = the candidate batch *)
  Definition ok_spec (all cands : list track) (cls : N) (only_baked : bool) : list res :=
    flat_map (fun c => flat_map (fun o => if eligible c only_baked o then pair_ok c cls o else []) all) cands.

  Definition err_spec (all cands : list track) (cls : N) (only_baked : bool) : list err :=
    flat_map (fun c => flat_map (fun o => if eligible c only_baked o then pair_err c cls o else []) all) cands.

  (* ---- protocol state ----------------------------------------------------------------------------- *)
  Record dstate := mkD {
    shards : list (list track);          (* content of every shard (a HashMap: any order) *)
    queues : list (list track);          (* per-shard FIFO of queued Distances commands (the candidate) *)
    ok_chan : list (list res);           (* chunks sent and not yet received *)
    err_chan : list (list err);
    pre : option (list N);               (* owned query: ids still to be copied *)
    todo : list (nat * track);           (* caller: commands still to be enqueued, in program order *)
    need_ok : nat; need_err : nat;       (* caller: chunks still to be read (count) *)
    got_ok : list (list res);            (* caller: chunks read so far, in arrival order *)
    got_err : list (list err)
  }.

  (* for track in tracks { for (cmd, _) in executors { cmd.send(Distances(track, ..)) } } *)
  Definition enq_list (n : nat) (cands : list track) : list (nat * track) :=
    flat_map (fun c => map (fun k => (k, c)) (seq 0 n)) cands.

  Definition foreign_init (sh : list (list track)) (cands : list track) : dstate :=
    let n := length sh in
    mkD sh (repeat [] n) [] [] None (enq_list n cands) (n * length cands) (n * length cands) [] [].

  Definition find_track (sh : list (list track)) (id : N) : option track :=
    find (fun t => N.eqb (tid t) id) (nth (N.to_nat (N.modulo id (N.of_nat (length sh)))) sh []).

  Definition owned_cands (sh : list (list track)) (ids : list N) : list track :=
    flat_map (fun id => opt_list (find_track sh id)) ids.

  Definition owned_init (sh : list (list track)) (ids : list N) : dstate :=
    mkD sh (repeat [] (length sh)) [] [] (Some ids) [] 0 0 [] [].

  Section Fire.
    Variable cls : N.
    Variable only_baked : bool.

    Definition dfire (st : dstate) (l : dlabel) : option dstate :=
      match l with
      | DCopy =>
          match pre st with
          | Some ids =>
              let cands := owned_cands (shards st) ids in
              let n := length (shards st) in
              Some (mkD (shards st) (queues st) (ok_chan st) (err_chan st) None (enq_list n cands)
                        (n * length cands) (n * length cands) (got_ok st) (got_err st))
          | None => None
          end
      | DEnq k =>
          match pre st, todo st with
          | None, (k', c) :: rest =>
              if Nat.eqb k k' then
                match nth_error (queues st) k with
                | Some q => Some (mkD (shards st) (set_nth k (q ++ [c]) (queues st)) (ok_chan st) (err_chan st)
                                      None rest (need_ok st) (need_err st) (got_ok st) (got_err st))
                | None => None
                end
              else None
          | _, _ => None
          end
      | DExec k =>
          match nth_error (queues st) k with
          | Some (c :: q) =>
              let r := shard_distances c cls only_baked (nth k (shards st) []) in
              Some (mkD (shards st) (set_nth k q (queues st)) (ok_chan st ++ [fst r]) (err_chan st ++ [snd r])
                        (pre st) (todo st) (need_ok st) (need_err st) (got_ok st) (got_err st))
          | _ => None
          end
      | DRecvOk =>
          match need_ok st, ok_chan st with
          | S m, ch :: rest =>
              Some (mkD (shards st) (queues st) rest (err_chan st) (pre st) (todo st) m (need_err st)
                        (got_ok st ++ [ch]) (got_err st))
          | _, _ => None
          end
      | DRecvErr =>
          match need_err st, err_chan st with
          | S m, ch :: rest =>
              Some (mkD (shards st) (queues st) (ok_chan st) rest (pre st) (todo st) (need_ok st) m
                        (got_ok st) (got_err st ++ [ch]))
          | _, _ => None
          end
      end.

    (* the caller has returned from all(): nothing left to copy, to enqueue or to read *)
    Definition dfinal (st : dstate) : bool :=
      match pre st, todo st, need_ok st, need_err st with
      | None, [], O, O => true
      | _, _, _, _ => false
      end.

    Fixpoint drun (st : dstate) (sigma : list dlabel) : option dstate :=
      match sigma with
      | [] => Some st
      | l :: rest => match dfire st l with Some st' => drun st' rest | None => None end
      end.

    (* labels that may be enabled in a state: used for "no deadlock" and by the schedule enumerator *)
    Definition candidates_labels (st : dstate) : list dlabel :=
      [DCopy; DRecvOk; DRecvErr] ++ map DEnq (seq 0 (length (queues st))) ++ map DExec (seq 0 (length (queues st))).

    Definition enabled (st : dstate) : list dlabel :=
      filter (fun l => match dfire st l with Some _ => true | None => false end) (candidates_labels st).
  End Fire.

  (* the sharding used by TrackStore: a track lives in shard id mod n *)
  Definition distribute (n : nat) (all : list track) : list (list track) :=
    map (fun k => filter (fun t => Nat.eqb (N.to_nat (N.modulo (tid t) (N.of_nat n))) k) all) (seq 0 n).
End Dist.

Arguments mkD {track MV}.
Arguments shards {track MV}.
Arguments queues {track MV}.
Arguments ok_chan {track MV}.
Arguments err_chan {track MV}.
Arguments pre {track MV}.
Arguments todo {track MV}.
Arguments need_ok {track MV}.
Arguments need_err {track MV}.
Arguments got_ok {track MV}.
Arguments got_err {track MV}.
Arguments DOk {MV}.
Arguments DIncompatible {MV}.
Arguments DClassMissing {MV}.

(* =====================================================================================================
   A concrete scripted algebra, implemented identically in harness/src/bin/sched.rs. It is what the
   correspondence check evaluates and what the legacy witness below is stated on.
   ===================================================================================================== *)
Module DistInst.
  Record trk := mkT { t_id : N; t_grp : N; t_status : N; t_obs : list (N * list N) }.

  Definition i_status (t : trk) : status :=
    match t_status t with 0%N => Pending | 1%N => Ready | 2%N => Wasted | _ => BakedErr end.

  (* not symmetric: group g refuses group (g+1) mod 3 *)
  Definition i_compatible (c o : trk) : bool := negb (N.eqb (t_grp o) (N.modulo (t_grp c + 1) 3)).

  Fixpoint assoc (cls : N) (l : list (N * list N)) : option (list N) :=
    match l with
    | [] => None
    | (k, v) :: rest => if N.eqb k cls then Some v else assoc cls rest
    end.

  Definition i_obs (t : trk) (cls : N) : option (list N) := assoc cls (t_obs t).

  (* metric on observation values a (candidate) and b (track):
       (a+b) mod 4 = 0 -> None;  = 1 -> Some (None, fd);  otherwise Some (Some (16a+b+cls), fd)
       fd = Some a if a*b is even, None otherwise *)
  Definition i_metric (cls : N) (_ : trk) (a : N) (_ : trk) (b : N) : option (option N * option N) :=
    let fd := if N.even (a * b) then Some a else None in
    match N.modulo (a + b) 4 with
    | 0%N => None
    | 1%N => Some (None, fd)
    | _ => Some (Some (16 * a + b + cls)%N, fd)
    end.

  (* postprocess_distances: candidates of group 2 drop results without an attribute metric (as SortMetric does) *)
  Definition i_post (c : trk) (l : list (N * N * (option N * option N))) :=
    if N.eqb (t_grp c) 2 then filter (fun r => match fst (snd r) with Some _ => true | None => false end) l else l.

  Definition st := dstate trk (option N * option N).
  Definition fire := dfire trk N (option N * option N) t_id i_compatible i_status i_obs i_metric i_post.
  Definition run := drun trk N (option N * option N) t_id i_compatible i_status i_obs i_metric i_post.
  Definition final : st -> bool := dfinal trk (option N * option N).
  Definition okspec := ok_spec trk N (option N * option N) t_id i_compatible i_status i_obs i_metric i_post.
  Definition errspec := err_spec trk N t_id i_compatible i_status i_obs.
  Definition enabled_labels := enabled trk N (option N * option N) t_id i_compatible i_status i_obs i_metric i_post.

  (* what the correspondence prints: Some (final?, ok chunks in arrival order, err chunks in arrival order,
     shards) or None when some label of the schedule was not enabled *)
  Definition run_foreign (sh : list (list trk)) (cands : list trk) (cls : N) (ob : bool) (sigma : list dlabel) :=
    match run cls ob (foreign_init trk (option N * option N) sh cands) sigma with
    | Some s => Some (final s, got_ok s, got_err s)
    | None => None
    end.

  Definition run_owned (sh : list (list trk)) (ids : list N) (cls : N) (ob : bool) (sigma : list dlabel) :=
    match run cls ob (owned_init trk (option N * option N) sh ids) sigma with
    | Some s => Some (final s, got_ok s, got_err s)
    | None => None
    end.
End DistInst.

(* =====================================================================================================
   Legacy: owned_track_distances as it was before the fix (commit "fix: owned_track_distances keeps the
   queried tracks in the store while workers compute"):
       let tracks_vec = self.fetch_tracks(tracks);                       -- LFetch
       let res = self.foreign_track_distances(tracks_vec.clone(), ..);   -- DEnq ...
       for t in tracks_vec { self.add_track(t).unwrap(); }               -- LReAdd
   ===================================================================================================== *)
Module Legacy.
  Import DistInst.

  Inductive llabel := LFetch | LReAdd | LStep (l : dlabel).

  Record lstate := mkL { base : st; removed : option (list trk) }.

  Definition remove_id (id : N) (sh : list trk) : list trk := filter (fun t => negb (N.eqb (t_id t) id)) sh.

  Definition shard_of (n : nat) (id : N) : nat := N.to_nat (N.modulo id (N.of_nat n)).

  Definition fetch (sh : list (list trk)) (ids : list N) : list (list trk) * list trk :=
    fold_left (fun acc id =>
                 let '(s, out) := acc in
                 match find_track trk t_id s id with
                 | Some t => (set_nth (shard_of (length s) id) (remove_id id (nth (shard_of (length s) id) s [])) s, out ++ [t])
                 | None => (s, out)
                 end) ids (sh, []).

  Definition readd (sh : list (list trk)) (ts : list trk) : list (list trk) :=
    fold_left (fun s t => set_nth (shard_of (length s) (t_id t)) (nth (shard_of (length s) (t_id t)) s [] ++ [t]) s) ts sh.

  Definition lfire (cls : N) (ob : bool) (s : lstate) (l : llabel) : option lstate :=
    let b := base s in
    match l with
    | LFetch =>
        match pre b with
        | Some ids =>
            let '(sh', out) := fetch (shards b) ids in
            let n := length sh' in
            Some (mkL (mkD sh' (queues b) (ok_chan b) (err_chan b) None (enq_list trk n out)
                           (n * length out) (n * length out) (got_ok b) (got_err b)) (Some out))
        | None => None
        end
    | LReAdd =>
        match todo b, removed s with
        | [], Some out =>
            Some (mkL (mkD (readd (shards b) out) (queues b) (ok_chan b) (err_chan b) (pre b) (todo b)
                           (need_ok b) (need_err b) (got_ok b) (got_err b)) None)
        | _, _ => None
        end
    | LStep x =>
        (* the caller can only read after owned_track_distances has returned, i.e. after the re-add *)
        let blocked := match x, removed s with
                       | DCopy, _ => true
                       | DRecvOk, Some _ => true
                       | DRecvErr, Some _ => true
                       | _, _ => false
                       end in
        if blocked then None
        else match fire cls ob b x with Some b' => Some (mkL b' (removed s)) | None => None end
    end.

  Fixpoint lrun (cls : N) (ob : bool) (s : lstate) (sigma : list llabel) : option lstate :=
    match sigma with
    | [] => Some s
    | l :: rest => match lfire cls ob s l with Some s' => lrun cls ob s' rest | None => None end
    end.

  Definition lfinal (s : lstate) : bool :=
    final (base s) && match removed s with None => true | Some _ => false end.

  Definition legacy_init (sh : list (list trk)) (ids : list N) : lstate :=
    mkL (owned_init trk (option N * option N) sh ids) None.
End Legacy.

(* =====================================================================================================
   One predict call of a simple tracker (Sort / VisualSort) as far as shards and schedules are concerned:
     build the candidates            [cands_of]   (next_epoch, one candidate track per detection)
     distance query on the n-shard store, some complete interleaving sigma of its workers (DistProto)
     voting on the delivered stream  [winners]
     sequential commit               [commit]     (per candidate: id issuing, add_track / merge_external)
   The tracker state TS is abstract; [store_of] is the content of its store as a finite map (the `abs` of the
   sharded store: the union of the shards, which does not depend on n - store_sharding_covers).
   ===================================================================================================== *)
Section Predict.
  Variable track : Type.
  Variable OBS : Type.
  Variable MV : Type.
  Variable tid : track -> N.
  Variable compatible : track -> track -> bool.
  Variable baked : track -> status.
  Variable observations : track -> N -> option (list OBS).
  Variable metric : N -> track -> OBS -> track -> OBS -> option MV.
  Variable postprocess : track -> list (res MV) -> list (res MV).
  Variable cls : N.
  Variable ob : bool.

  Variable TS : Type.
  Variable IN : Type.
  Variable OUT : Type.
  Variable W : Type.
  Variable store_of : TS -> list track.
  Variable cands_of : TS -> IN -> TS * list track.
  Variable winners : list (res MV) -> W.
  Variable commit : TS -> list track -> W -> TS * OUT.

  Inductive predict_rel (n : nat) (ts : TS) (inp : IN) : TS -> OUT -> Prop :=
  | predict_intro sigma st :
      drun track OBS MV tid compatible baked observations metric postprocess cls ob
           (foreign_init track MV (distribute track tid n (store_of (fst (cands_of ts inp)))) (snd (cands_of ts inp))) sigma = Some st ->
      dfinal track MV st = true ->
      predict_rel n ts inp
        (fst (commit (fst (cands_of ts inp)) (snd (cands_of ts inp)) (winners (concat (got_ok st)))))
        (snd (commit (fst (cands_of ts inp)) (snd (cands_of ts inp)) (winners (concat (got_ok st))))).

  Inductive history_rel (n : nat) : TS -> list IN -> TS -> list OUT -> Prop :=
  | h_nil ts : history_rel n ts [] ts []
  | h_cons ts inp ins ts1 o ts2 os :
      predict_rel n ts inp ts1 o -> history_rel n ts1 ins ts2 os -> history_rel n ts (inp :: ins) ts2 (o :: os).

  Variable tie_free : list (res MV) -> Prop.

  (* the stream of the call is free of exact ties (stated on the specified multiset of distances) *)
  Definition tie_free_call (ts : TS) (inp : IN) : Prop :=
    tie_free (ok_spec track OBS MV tid compatible baked observations metric postprocess
                      (store_of (fst (cands_of ts inp))) (snd (cands_of ts inp)) cls ob).

  Inductive tie_free_history (n : nat) : TS -> list IN -> Prop :=
  | tf_nil ts : tie_free_history n ts []
  | tf_cons ts inp ins :
      tie_free_call ts inp ->
      (forall ts1 o, predict_rel n ts inp ts1 o -> tie_free_history n ts1 ins) ->
      tie_free_history n ts (inp :: ins).
End Predict.
