(* DistProtoFine - the distance-query protocol at the granularity of single channel sends.

   In /repo/src/track/store.rs (handle_store_ops, command Distances) a worker computes both result lists under
   the shard lock, releases the lock, sends the ok chunk and THEN the err chunk: two channel sends between which
   every other thread (the caller's enqueues and reads, the other workers) may run. Model/DistProto.v treats a
   command as one atomic step DExec k; here it is split:
       FExecOk k   worker k takes its next command, computes, sends the ok chunk; the err chunk is pending
       FExecErr k  worker k sends its pending err chunk (only then does it take the next command)
   All other steps (FCopy, FEnq, FRecvOk, FRecvErr) are those of DistProto. Schedule point between the two
   sends in the code: `store_distances_ok_sent`. *)
From Coq Require Import List NArith Bool Arith.
From Similari Require Import Model.DistProto.
Import ListNotations.

Inductive flabel := FCopy | FEnq (k : nat) | FExecOk (k : nat) | FExecErr (k : nat) | FRecvOk | FRecvErr.

Definition base_label (l : flabel) : option dlabel :=
  match l with
  | FCopy => Some DCopy
  | FEnq k => Some (DEnq k)
  | FRecvOk => Some DRecvOk
  | FRecvErr => Some DRecvErr
  | FExecOk _ | FExecErr _ => None
  end.

Section Fine.
  Variable track : Type.
  Variable OBS : Type.
  Variable MV : Type.
  Variable tid : track -> N.
  Variable compatible : track -> track -> bool.
  Variable baked : track -> status.
  Variable observations : track -> N -> option (list OBS).
  Variable metric : N -> track -> OBS -> track -> OBS -> option MV.
  Variable postprocess : track -> list (res MV) -> list (res MV).
  Variable cls : N.
  Variable only_baked : bool.

  Record fstate := mkF {
    fb : dstate track MV;                   (* as in DistProto *)
    half : list (option (list err))         (* per worker: the err chunk computed and not yet sent *)
  }.

  Definition finit_foreign (sh : list (list track)) (cands : list track) : fstate :=
    mkF (foreign_init track MV sh cands) (repeat None (length sh)).

  Definition finit_owned (sh : list (list track)) (ids : list N) : fstate :=
    mkF (owned_init track MV sh ids) (repeat None (length sh)).

  Definition ffire (st : fstate) (l : flabel) : option fstate :=
    let b := fb st in
    match l with
    | FExecOk k =>
        match nth_error (half st) k, nth_error (queues b) k with
        | Some None, Some (c :: q) =>
            let r := shard_distances track OBS MV tid compatible baked observations metric postprocess
                                     c cls only_baked (nth k (shards b) []) in
            Some (mkF (mkD (shards b) (set_nth k q (queues b)) (ok_chan b ++ [fst r]) (err_chan b) (pre b) (todo b)
                           (need_ok b) (need_err b) (got_ok b) (got_err b))
                      (set_nth k (Some (snd r)) (half st)))
        | _, _ => None
        end
    | FExecErr k =>
        match nth_error (half st) k with
        | Some (Some e) =>
            Some (mkF (mkD (shards b) (queues b) (ok_chan b) (err_chan b ++ [e]) (pre b) (todo b)
                           (need_ok b) (need_err b) (got_ok b) (got_err b))
                      (set_nth k None (half st)))
        | _ => None
        end
    | _ =>
        match base_label l with
        | Some l' =>
            match dfire track OBS MV tid compatible baked observations metric postprocess cls only_baked b l' with
            | Some b' => Some (mkF b' (half st))
            | None => None
            end
        | None => None
        end
    end.

  Fixpoint frun (st : fstate) (sigma : list flabel) : option fstate :=
    match sigma with
    | [] => Some st
    | l :: rest => match ffire st l with Some st' => frun st' rest | None => None end
    end.

  (* the caller has returned from all() on both streams *)
  Definition ffinal (st : fstate) : bool := dfinal track MV (fb st).
End Fine.

Arguments mkF {track MV}.
Arguments fb {track MV}.
Arguments half {track MV}.

Module DistInstFine.
  Import DistInst.
  Definition frun_i := frun trk N (option N * option N) t_id i_compatible i_status i_obs i_metric i_post.
  Definition run_foreign_fine (sh : list (list trk)) (cands : list trk) (cls : N) (ob : bool) (sigma : list flabel) :=
    match frun_i cls ob (finit_foreign trk (option N * option N) sh cands) sigma with
    | Some s => Some (ffinal trk (option N * option N) s, got_ok (fb s), got_err (fb s))
    | None => None
    end.
  Definition run_owned_fine (sh : list (list trk)) (ids : list N) (cls : N) (ob : bool) (sigma : list flabel) :=
    match frun_i cls ob (finit_owned trk (option N * option N) sh ids) sigma with
    | Some s => Some (ffinal trk (option N * option N) s, got_ok (fb s), got_err (fb s))
    | None => None
    end.
End DistInstFine.

(* Second scripted algebra (harness metric M2): the metric does not override postprocess_distances (identity, the
   trait default) and answers Some (None, None) for some pairs - still a value, still one result. *)
Module DistInstFine2.
  Import DistInst.
  Definition i_metric2 (cls : N) (_ : trk) (a : N) (_ : trk) (b : N) : option (option N * option N) :=
    match N.modulo (a + b) 4 with
    | 0%N => None
    | 1%N => Some (None, if N.even a then None else Some a)
    | _ => Some (Some (16 * a + b + cls)%N, if N.even (a * b) then Some a else None)
    end.
  Definition i_post2 (_ : trk) (l : list (N * N * (option N * option N))) := l.
  Definition frun_i2 := frun trk N (option N * option N) t_id i_compatible i_status i_obs i_metric2 i_post2.
  Definition run_foreign_fine (sh : list (list trk)) (cands : list trk) (cls : N) (ob : bool) (sigma : list flabel) :=
    match frun_i2 cls ob (finit_foreign trk (option N * option N) sh cands) sigma with
    | Some s => Some (ffinal trk (option N * option N) s, got_ok (fb s), got_err (fb s))
    | None => None
    end.
  Definition run_owned_fine (sh : list (list trk)) (ids : list N) (cls : N) (ob : bool) (sigma : list flabel) :=
    match frun_i2 cls ob (finit_owned trk (option N * option N) sh ids) sigma with
    | Some s => Some (ffinal trk (option N * option N) s, got_ok (fb s), got_err (fb s))
    | None => None
    end.
End DistInstFine2.
