(* C15 - exclusively-owned area share (src/utils/clipping/bbox_own_areas.rs).

   Two exact specifications of "the fraction of a box's area that no other box of the set covers":
     own_share_grid  integer axis-aligned boxes: coordinate compression, elementary cells (theorems in
                     Proofs/OwnAreaProofs.v are about this one)
     own_shares_ie   arbitrary rectangles given (cos, sin): inclusion-exclusion, every term the shoelace area of an
                     iterated Sutherland-Hodgman clip (Model/Geom.v); mirrors the too_far pre-filter and the
                     normalisation  own / (area + EPS)  clamped at 1 of the Rust code.
   geo::BooleanOps::difference itself is an oracle (DESIGN section 5): what the implementation returns is compared
   with these specifications by tools/props/c15.py. *)
From Coq Require Import List Bool ZArith QArith.
From Similari Require Import Base.Num Model.Geom.
From SimilariGen Require Import Consts Scalar ScalarBox ScalarOwnArea.
Import ListNotations.

(* ------------------------------------------------------------------------------------------ *)
(* Integer axis-aligned boxes [x0,x1] x [y0,y1] *)
Record ibox := mkibox { ix0 : Z; iy0 : Z; ix1 : Z; iy1 : Z }.

Definition ibox_ok (b : ibox) : Prop := (ix0 b < ix1 b)%Z /\ (iy0 b < iy1 b)%Z.

Open Scope Z_scope.

(* strictly increasing list without duplicates = the compressed coordinates *)
Fixpoint sinsert (x : Z) (l : list Z) : list Z :=
  match l with
  | [] => [x]
  | y :: tl => if x <? y then x :: l else if x =? y then l else y :: sinsert x tl
  end.

Definition sset (l : list Z) : list Z := fold_right sinsert [] l.

(* consecutive pairs: the elementary intervals *)
Fixpoint adj (l : list Z) : list (Z * Z) :=
  match l with
  | a :: tl => match tl with
               | b :: _ => (a, b) :: adj tl
               | [] => []
               end
  | [] => []
  end.

Definition xs_of (bs : list ibox) : list Z := sset (flat_map (fun b => [ix0 b; ix1 b]) bs).
Definition ys_of (bs : list ibox) : list Z := sset (flat_map (fun b => [iy0 b; iy1 b]) bs).

(* the elementary cell cx x cy lies inside box b *)
Definition cell_in (b : ibox) (cx cy : Z * Z) : bool :=
  (ix0 b <=? fst cx) && (snd cx <=? ix1 b) && (iy0 b <=? fst cy) && (snd cy <=? iy1 b).

Definition cell_area (cx cy : Z * Z) : Z := (snd cx - fst cx) * (snd cy - fst cy).

Definition zsum (l : list Z) : Z := fold_right Z.add 0 l.

(* sum of the areas of the cells of the grid xs x ys that satisfy p *)
Definition cells_sum (xs ys : list Z) (p : Z * Z -> Z * Z -> bool) : Z :=
  zsum (map (fun cx => zsum (map (fun cy => if p cx cy then cell_area cx cy else 0) (adj ys))) (adj xs)).

Definition covered (others : list ibox) (cx cy : Z * Z) : bool := existsb (fun o => cell_in o cx cy) others.

Definition own_area_grid (b : ibox) (others : list ibox) : Z :=
  cells_sum (xs_of (b :: others)) (ys_of (b :: others)) (fun cx cy => cell_in b cx cy && negb (covered others cx cy)).

(* the part of b covered by the union of the others, cell-wise *)
Definition covered_area_grid (b : ibox) (others : list ibox) : Z :=
  cells_sum (xs_of (b :: others)) (ys_of (b :: others)) (fun cx cy => cell_in b cx cy && covered others cx cy).

Definition ibox_area (b : ibox) : Z := (ix1 b - ix0 b) * (iy1 b - iy0 b).

Definition own_share_grid (b : ibox) (others : list ibox) : Q :=
  Qmake (own_area_grid b others) (Z.to_pos (ibox_area b)).

(* all shares of a set: box i against all the others, in the given order *)
Fixpoint own_shares_grid_from (before after : list ibox) : list Q :=
  match after with
  | [] => []
  | b :: tl => own_share_grid b (before ++ tl) :: own_shares_grid_from (before ++ [b]) tl
  end.

Definition own_shares_grid (bs : list ibox) : list Q := own_shares_grid_from [] bs.

(* The inclusion-exclusion recursion of [uncovered] below, written on integer rectangles: the intersection of two
   axis-aligned boxes is a box (possibly empty: x1 <= x0 or y1 <= y0, area 0) *)
Definition ibox_inter (a b : ibox) : ibox :=
  mkibox (Z.max (ix0 a) (ix0 b)) (Z.max (iy0 a) (iy0 b)) (Z.min (ix1 a) (ix1 b)) (Z.min (iy1 a) (iy1 b)).

Definition ibox_area0 (b : ibox) : Z := Z.max 0 (ix1 b - ix0 b) * Z.max 0 (iy1 b - iy0 b).

Fixpoint uncovered_rect (r : ibox) (others : list ibox) : Z :=
  match others with
  | [] => ibox_area0 r
  | o :: rest => uncovered_rect r rest - uncovered_rect (ibox_inter r o) rest
  end.

Close Scope Z_scope.

(* ------------------------------------------------------------------------------------------ *)
(* Rotated rectangles: inclusion-exclusion over NumOps *)
Section OwnIE.
Variable num : NumOps.
Notation F := (T num).

(* area of p minus the union of the convex polygons in [others]:
   |p \ (o U rest)| = |p \ rest| - |(p /\ o) \ rest| *)
Fixpoint uncovered (p : list (pt num)) (others : list (list (pt num))) : F :=
  match others with
  | [] => shoelace num p
  | o :: rest =>
      let pin := sh_clip num p o in
      sub num (uncovered p rest)
              (match pin with [] => zero num | _ => uncovered pin rest end)
  end.

(* bbox_own_areas.rs:43-44   (area / (b.area() + EPS)) clamped: if e >= 1.0 {1.0} else {e}.
   [own_shares_ie] below calls the TRANSLATED own_share_raw / own_share_clamp (gen/ScalarOwnArea.v); this hand version
   (own area as a plain number) is what the range lemma is stated on and is proved equal to the translated text
   (Props/C15.v share_normalise_is_translation). *)
Definition share_normalise (own area : F) : F :=
  let e := div num own (add num area (of_Q num EPS)) in
  if leb num (one num) e then one num else e.

(* bbox_own_areas.rs:9-17, 25-30: the pair (i,j), i<j, is recorded when NOT too_far(boxes[i], boxes[j]);
   box i is clipped by every j with (i,j) or (j,i) recorded *)
Definition near_pair (boxes : list (box num)) (i j : nat) : bool :=
  let d := mkbox (zero num) (zero num) (one num) (zero num) (one num) (one num) in
  if Nat.ltb i j then negb (too_far num (nth i boxes d) (nth j boxes d))
  else if Nat.ltb j i then negb (too_far num (nth j boxes d) (nth i boxes d))
  else false.

Definition near_others (boxes : list (box num)) (i : nat) : list (box num) :=
  map snd (filter (fun jb => near_pair boxes i (fst jb)) (combine (seq 0 (length boxes)) boxes)).

Definition own_area_ie (boxes : list (box num)) (i : nat) (b : box num) : F :=
  uncovered (rect_vertices num b) (map (rect_vertices num) (near_others boxes i)).

Definition own_shares_ie (boxes : list (box num)) : list F :=
  map (fun ib => own_share_clamp num (own_share_raw num (to_ubox num (snd ib)) (own_area_ie boxes (fst ib) (snd ib))))
      (combine (seq 0 (length boxes)) boxes).

End OwnIE.

(* ------------------------------------------------------------------------------------------ *)
(* entry points of the correspondence check *)
Definition run_grid (bs : list ibox) : list (list Z) :=
  map (fun q => [Qnum q; Zpos (Qden q)]) (own_shares_grid bs).

Definition run_ie (boxes : list qbox) : list (list Z) * list (list Z) :=
  (map oq (own_shares_ie Qops boxes),
   map (fun ib => oq (own_area_ie Qops boxes (fst ib) (snd ib))) (combine (seq 0 (length boxes)) boxes)).
