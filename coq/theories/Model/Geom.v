(* Model of the oriented-box geometry of /repo (C08, used by C15):
     src/utils/clipping.rs   is_inside, compute_intersection (parametric, commit 04617aa), sutherland_hodgman_clip
     src/utils/bbox.rs       From<&Universal2DBox> for Polygon<f64>, Universal2DBox::{intersection,too_far,get_radius,area},
                             BoundingBox::intersection, the two IoU functions (calculate_metric_object)
     geo::Area::unsigned_area of the clipped ring (shoelace)
   One definition over NumOps (DESIGN 2.1): theorems are about the Qops instance (Proofs/GeomProofs.v), the very
   same terms are evaluated on the implementation's exact dyadic inputs by tools/props/c08.py.
   The scalar pieces are the functions TRANSLATED from the Rust source on every run (gen/ScalarClip.v, gen/ScalarBox.v):
   [is_inside], [compute_intersection], [rect_vertices], [radius2], [aa_inter] ARE the translated clip_is_inside,
   clip_compute_intersection, ubox_vertices, ubox_radius_sq, bbox_intersection (through the small conversions
   to_coord / to_ubox / to_bbox); [box_area], [to_ltwh], [of_ltwh], [too_far] are hand-written and proved equal to
   ubox_area, ubox_to_bbox, bbox_to_ubox, ubox_too_far_r in Proofs/GeomProofs.v (theorems *_is_translation of
   Props/C08.v).  The list programs (clip loops, shoelace, the reference) are hand-written. *)
From Coq Require Import List Bool ZArith QArith.
From Similari Require Import Base.Num.
From SimilariGen Require Import Scalar ScalarClip ScalarBox.
Import ListNotations.

Section Geom.
Variable num : NumOps.
Notation F := (T num).
Notation "0" := (zero num).
Notation "1" := (one num).
Infix "+" := (add num).
Infix "-" := (sub num).
Infix "*" := (mul num).
Infix "/" := (div num).
Notation "- x" := (opp num x).
Infix "<=?" := (leb num).
Infix "<?" := (ltb num).

Definition two : F := of_Q num (Qmake 2%Z xH).
Definition eqb (a b : F) : bool := (a <=? b) && (b <=? a).

Definition pt : Type := (F * F)%type.
Definition px (p : pt) : F := fst p.
Definition py (p : pt) : F := snd p.
Definition pt_eqb (p q : pt) : bool := eqb (px p) (px q) && eqb (py p) (py q).

(* conversions between the model's points (pairs) and the translated record Coord *)
Definition to_coord (p : pt) : Coord num := Build_Coord num (fst p) (snd p).
Definition of_coord (c : Coord num) : pt := (Coord_x num c, Coord_y num c).

(* the cross product that clipping.rs evaluates (in is_inside and, since commit 04617aa, in the closure `side` of
   compute_intersection); used to STATE lemmas: the model itself calls the translated functions below *)
Definition cross (p1 p2 q : pt) : F :=
  (px p2 - px p1) * (py q - py p1) - (py p2 - py p1) * (px q - px p1).

(* clipping.rs is_inside: TRANSLATED (gen/ScalarClip.v clip_is_inside):  r <= 0.0 *)
Definition is_inside (q p1 p2 : pt) : bool := clip_is_inside num (to_coord q) (to_coord p1) (to_coord p2).

(* clipping.rs compute_intersection: TRANSLATED (clip_compute_intersection): the crossing of the segment cp1-cp2 with
   the line through s and e, computed along the segment, t = (d1 / (d1 - d2)).clamp(0.0, 1.0) *)
Definition compute_intersection (cp1 cp2 s e : pt) : pt :=
  of_coord (clip_compute_intersection num (to_coord cp1) (to_coord cp2) (to_coord s) (to_coord e)).

(* the line-line formula the code used before the fix (kept as documentation: GeomProofs.compute_intersection_lines_eq
   shows it is the same point in exact arithmetic whenever the clipper calls it) *)
Definition compute_intersection_lines (cp1 cp2 s e : pt) : pt :=
  let dcx := px cp1 - px cp2 in
  let dcy := py cp1 - py cp2 in
  let dpx := px s - px e in
  let dpy := py s - py e in
  let n1 := px cp1 * py cp2 - py cp1 * px cp2 in
  let n2 := px s * py e - py s * px e in
  let n3 := 1 / (dcx * dpy - dcy * dpx) in
  ((n1 * dpx - n2 * dcx) * n3, (n1 * dpy - n2 * dcy) * n3).

(* clipping.rs:63-87, the body of the inner loop for one subject edge (s = next_polygon[j_i], e = next_polygon[j])
   against the clip edge (cs, ce).  NB the call passes the SUBJECT edge as cp1,cp2 and the clip edge as s,e. *)
Definition clip_step (cs ce s e : pt) : list pt :=
  if is_inside e cs ce then
    if negb (is_inside s cs ce) then [compute_intersection s e cs ce; e] else [e]
  else if is_inside s cs ce then [compute_intersection s e cs ce]
  else [].

(* the inner loop  for j in 0..len : j_i = if j == 0 {len-1} else {j-1}:
   the previous vertex of the first one is the LAST one (wrap-around), afterwards it is the preceding element *)
Fixpoint clip_walk (cs ce prev : pt) (l : list pt) : list pt :=
  match l with
  | [] => []
  | cur :: tl => clip_step cs ce prev cur ++ clip_walk cs ce cur tl
  end.

Definition clip_pass (cs ce : pt) (poly : list pt) : list pt :=
  match poly with
  | [] => []
  | _ => clip_walk cs ce (last poly (0, 0)) poly
  end.

(* the outer loop  for i in 0..clip.len : i_i = if i == 0 {len-1} else {i-1} *)
Fixpoint clip_edges (prev : pt) (clipl poly : list pt) : list pt :=
  match clipl with
  | [] => poly
  | cur :: tl => clip_edges cur tl (clip_pass prev cur poly)
  end.

(* both arguments are the open vertex lists (coords_iter() followed by pop()) *)
Definition sh_clip (subject clipping : list pt) : list pt :=
  match clipping with
  | [] => subject
  | _ => clip_edges (last clipping (0, 0)) clipping subject
  end.

(* geo::Area::unsigned_area of Polygon::new(LineString(ring), []) : |sum of determinants of consecutive
   vertices of the closed ring| / 2.  The cyclic sum is written with the same wrap-around walk as above
   (geo subtracts ring[0] from every coordinate first; in exact arithmetic that changes nothing). *)
Definition det (p q : pt) : F := px p * py q - py p * px q.

Fixpoint det_walk (prev : pt) (l : list pt) : F :=
  match l with
  | [] => 0
  | cur :: tl => det prev cur + det_walk cur tl
  end.

Definition twice_signed_area (l : list pt) : F :=
  match l with
  | [] => 0
  | _ => det_walk (last l (0, 0)) l
  end.

Definition shoelace (l : list pt) : F := abs num (twice_signed_area l) / two.

(* ------------------------------------------------------------------------------------------ *)
(* Boxes.  [bc], [bs] are the cosine and sine of the angle (angle None: 1, 0) - inputs of the model. *)
Record box := mkbox { bxc : F; byc : F; bc : F; bs : F; basp : F; bh : F }.

(* the translated record of a box (the angle itself is never used by the translated functions called here: cos and
   sin are passed separately; confidence is irrelevant) *)
Definition to_ubox (b : box) : Universal2DBox num :=
  Build_Universal2DBox num (bxc b) (byc b) None (basp b) (bh b) 1.

(* bbox.rs From<&Universal2DBox> for Polygon<f64>: TRANSLATED (gen/ScalarBox.v ubox_vertices) *)
Definition rect_vertices (b : box) : list pt := map of_coord (ubox_vertices num (to_ubox b) (bc b) (bs b)).

(* the union term of the IoU uses height*height*aspect *)
Definition box_area (b : box) : F := bh b * bh b * basp b.

(* get_radius squared: TRANSLATED (ubox_radius_sq): hw*hw + hh*hh *)
Definition radius2 (b : box) : F := ubox_radius_sq num (to_ubox b).

Definition dist2 (l r : box) : F :=
  let x := bxc l - bxc r in
  let y := byc l - byc r in
  x * x + y * y.

(* bbox.rs:452-462  x*x + y*y > (r_l + r_r)^2 with r = sqrt(radius2), decided without sqrt (DESIGN 2.1):
   d2 > r1^2 + r2^2 + 2 r1 r2  <=>  k := d2 - r1^2 - r2^2 > 0  /\  k^2 > 4 r1^2 r2^2 *)
Definition too_far (l r : box) : bool :=
  let k := dist2 l r - radius2 l - radius2 r in
  (0 <? k) && (two * two * radius2 l * radius2 r <? k * k).

Definition clip_area (p q : list pt) : F := shoelace (sh_clip p q).

(* Universal2DBox::intersection *)
Definition inter_area (l r : box) : F :=
  if too_far l r then 0 else clip_area (rect_vertices l) (rect_vertices r).

(* Universal2DBox / VisualObservationAttributes calculate_metric_object *)
Definition iou_of (inter al ar : F) : option F :=
  if eqb inter 0 then None else Some (inter / (al + ar - inter)).

Definition iou (l r : box) : option F := iou_of (inter_area l r) (box_area l) (box_area r).

(* ------------------------------------------------------------------------------------------ *)
(* Axis-aligned closed form: BoundingBox {left, top, width, height} *)
Record ltwh := mkltwh { bl : F; bt : F; bw : F; bhh : F }.

Definition to_bbox (r : ltwh) : BoundingBox num := Build_BoundingBox num (bl r) (bt r) (bw r) (bhh r) 1.

(* BoundingBox::intersection: TRANSLATED (gen/ScalarBox.v bbox_intersection) *)
Definition aa_inter (l r : ltwh) : F := bbox_intersection num (to_bbox l) (to_bbox r).

(* BoundingBox::calculate_metric_object (no None case) *)
Definition aa_iou (l r : ltwh) : F :=
  let i := aa_inter l r in
  i / (bhh l * bw l + bhh r * bw r - i).

(* TryFrom<&Universal2DBox> for BoundingBox (angle None) and its inverse *)
Definition to_ltwh (b : box) : ltwh :=
  let width := bh b * basp b in
  mkltwh (bxc b - width / two) (byc b - bh b / two) width (bh b).

Definition of_ltwh (r : ltwh) : box :=
  mkbox (bl r + bw r / two) (bt r + bhh r / two) 1 0 (bw r / bhh r) (bhh r).

(* ------------------------------------------------------------------------------------------ *)
(* Independent exact reference for the area of the intersection of two convex polygons:
   (vertices of each polygon that lie in the other)  U  (proper crossings of an edge of one with an edge
   of the other), duplicates removed, sorted counter-clockwise around their centroid, shoelace.
   A different algorithm from Sutherland-Hodgman, with an obvious reading; free of sqrt and atan. *)

Fixpoint edges_from (prev : pt) (l : list pt) : list (pt * pt) :=
  match l with
  | [] => []
  | cur :: tl => (prev, cur) :: edges_from cur tl
  end.

Definition edges (l : list pt) : list (pt * pt) :=
  match l with
  | [] => []
  | _ => edges_from (last l (0, 0)) l
  end.

(* clockwise convex polygon: inside = on the right of (or on) every edge *)
Definition in_poly (poly : list pt) (q : pt) : bool :=
  forallb (fun e => is_inside q (fst e) (snd e)) (edges poly).

Definition cross2 (ux uy vx vy : F) : F := ux * vy - uy * vx.

Definition seg_cross (e1 e2 : pt * pt) : list pt :=
  let p1 := fst e1 in let p2 := snd e1 in
  let q1 := fst e2 in let q2 := snd e2 in
  let rx := px p2 - px p1 in let ry := py p2 - py p1 in
  let sx := px q2 - px q1 in let sy := py q2 - py q1 in
  let d := cross2 rx ry sx sy in
  if eqb d 0 then []
  else
    let t := cross2 (px q1 - px p1) (py q1 - py p1) sx sy / d in
    let u := cross2 (px q1 - px p1) (py q1 - py p1) rx ry / d in
    if (0 <=? t) && (t <=? 1) && (0 <=? u) && (u <=? 1)
    then [(px p1 + t * rx, py p1 + t * ry)] else [].

Fixpoint dedup (l : list pt) : list pt :=
  match l with
  | [] => []
  | p :: tl => if existsb (pt_eqb p) tl then dedup tl else p :: dedup tl
  end.

Definition sum_list (l : list F) : F := fold_right (add num) 0 l.

Fixpoint nat_to_F (n : nat) : F :=
  match n with O => 0 | S k => 1 + nat_to_F k end.

Definition centroid (l : list pt) : pt :=
  let n := nat_to_F (length l) in
  (sum_list (map px l) / n, sum_list (map py l) / n).

(* angular order around the origin without atan: upper half-plane (y > 0, or y = 0 and x > 0) first,
   inside a half-plane by the sign of the cross product *)
Definition upper (vx vy : F) : bool := (0 <? vy) || (eqb vy 0 && (0 <? vx)).

Definition ang_lt (c p q : pt) : bool :=
  let ux := px p - px c in let uy := py p - py c in
  let vx := px q - px c in let vy := py q - py c in
  match upper ux uy, upper vx vy with
  | true, false => true
  | false, true => false
  | _, _ => 0 <? cross2 ux uy vx vy
  end.

Fixpoint ang_insert (c p : pt) (l : list pt) : list pt :=
  match l with
  | [] => [p]
  | q :: tl => if ang_lt c p q then p :: l else q :: ang_insert c p tl
  end.

Definition ang_sort (c : pt) (l : list pt) : list pt := fold_right (ang_insert c) [] l.

Definition inter_points (p q : list pt) : list pt :=
  dedup (filter (in_poly q) p ++ filter (in_poly p) q
         ++ flat_map (fun e1 => flat_map (fun e2 => seg_cross e1 e2) (edges q)) (edges p)).

Definition inter_area_ref (p q : list pt) : F :=
  let pts := inter_points p q in
  match pts with
  | [] => 0
  | _ => shoelace (ang_sort (centroid pts) pts)
  end.

End Geom.

Arguments px {num} p.
Arguments py {num} p.
Arguments mkbox {num}.
Arguments bxc {num}. Arguments byc {num}. Arguments bc {num}. Arguments bs {num}.
Arguments basp {num}. Arguments bh {num}.
Arguments mkltwh {num}.
Arguments bl {num}. Arguments bt {num}. Arguments bw {num}. Arguments bhh {num}.

(* ------------------------------------------------------------------------------------------ *)
(* Entry points for the correspondence check (exact rationals). *)
Definition qpt := pt Qops.
Definition qbox := box Qops.

(* everything the check compares for one ordered pair of polygons *)
Definition run_clip (p q : list qpt) : list qpt * Q * Q :=
  let c := sh_clip Qops p q in
  (c, shoelace Qops c, inter_area_ref Qops p q).

(* the box-level functions on the ideal rectangles built from the f32 fields and the given (cos, sin) *)
Definition run_boxes (l r : qbox) : bool * Q * option Q * list qpt * list qpt :=
  (too_far Qops l r, inter_area Qops l r, iou Qops l r, rect_vertices Qops l, rect_vertices Qops r).

(* printing helpers: a rational as [numerator; denominator] so that no decimal/hexadecimal notation is used *)
Definition oq (q : Q) : list Z := [Qnum q; Zpos (Qden q)].
Definition opt (p : qpt) : list Z := oq (fst p) ++ oq (snd p).
Definition out_clip (r : list qpt * Q * Q) :=
  match r with (c, a, ar) => (map opt c, oq a, oq ar, Qeq_bool a ar) end.
Definition out_boxes (r : bool * Q * option Q * list qpt * list qpt) :=
  match r with (tf, ia, io, va, vb) =>
    (tf, oq ia, match io with None => [] | Some x => oq x end, map opt va, map opt vb) end.
