(* Model of src/utils/nms.rs (C14).  Hand-written; tied to the code by the exact correspondence in
   tools/props/c14.py (kept indices of the real `nms` vs. this model fed with the real ranks and the
   real coverage ratios `Universal2DBox::intersection(hi, lo) as f32 / lo.area()`).

   Rust, for reference (nms.rs:33-77):

     let score_threshold = score_threshold.unwrap_or(f32::MIN);
     let nms_boxes = detections.iter()
         .filter(|(e, score)| score.unwrap_or(f32::MAX) > score_threshold && e.height > 0.0 && e.aspect > 0.0)
         .enumerate()                                            // index AFTER the filter
         .map(|(index, (b, score))| Candidate::new(b, score, index))   // rank = score.unwrap_or(b.height)
         .sorted_by(|a, b| b.rank.partial_cmp(&a.rank).unwrap())       // stable, descending
         .collect::<Vec<_>>();
     let mut excluded = HashSet::new();
     for (index, cb) in nms_boxes.iter().enumerate() {
         if excluded.contains(&cb.index) { continue; }
         for ob in &nms_boxes[index + 1..] {
             if excluded.contains(&ob.index) { continue; }
             let metric = Universal2DBox::intersection(cb.bbox, ob.bbox) as f32 / ob.bbox.area();
             if metric > nms_threshold { excluded.insert(ob.index); }
         }
     }
     nms_boxes.into_iter().filter(|e| !excluded.contains(&e.index)).map(|e| e.bbox).collect()
*)
From Coq Require Import List NArith QArith Bool Arith.
Import ListNotations.

(* itertools' sorted_by = Vec::sort_by: a stable sort.  With the comparator b.rank.cmp(a.rank) the result is
   descending in the key and elements with equal keys keep their input order.  Insertion sort from the right:
   the element being inserted stood before everything already in the list, so it is placed before the first
   element whose key is not strictly greater. *)
Section StableSort.
  Variable X : Type.
  Variable key : X -> Q.

  Definition key_lt (a b : X) : bool := negb (Qle_bool (key b) (key a)).   (* key a < key b *)

  Fixpoint insert_desc (e : X) (l : list X) : list X :=
    match l with
    | [] => [e]
    | x :: xs => if key_lt e x then x :: insert_desc e xs else e :: l
    end.

  Definition sort_desc (l : list X) : list X := fold_right insert_desc [] l.
End StableSort.

(* The recursive reading of greedy suppression: keep the head, drop what it covers, recurse. *)
Section Greedy.
  Variable X : Type.
  Variable cov : X -> X -> bool.      (* cov hi lo *)

  Fixpoint greedy_n (n : nat) (s : list X) : list X :=
    match n, s with
    | S n', b :: r => b :: greedy_n n' (filter (fun o => negb (cov b o)) r)
    | _, _ => []
    end.

  Definition greedy (s : list X) : list X := greedy_n (length s) s.
End Greedy.

Section Nms.
  Variable B : Type.                  (* a detection: the box together with its optional score *)
  Variable rank : B -> Q.             (* score.unwrap_or(bbox.height), the exact rational of the f32 *)
  Variable passes : B -> bool.        (* score filter and positive size *)
  Variable covers : B -> B -> bool.   (* ORACLE: covers hi lo = (intersection(hi, lo) as f32 / lo.area() > nms_threshold) *)

  Definition cand := (nat * B)%type.  (* Candidate { index, bbox, rank } *)

  Fixpoint enumerate_from (k : nat) (l : list B) : list cand :=
    match l with
    | [] => []
    | b :: r => (k, b) :: enumerate_from (S k) r
    end.

  Definition candidates (l : list B) : list cand := enumerate_from 0 (filter passes l).

  Definition crank (c : cand) : Q := rank (snd c).

  Definition sorted_candidates (l : list B) : list cand := sort_desc cand crank (candidates l).

  (* HashSet<usize> as a list; only membership is ever observed *)
  Definition mem (i : nat) (s : list nat) : bool := existsb (Nat.eqb i) s.

  (* for ob in &nms_boxes[index + 1..] *)
  Fixpoint inner (cb : B) (rest : list cand) (excluded : list nat) : list nat :=
    match rest with
    | [] => excluded
    | ob :: rest' =>
        if mem (fst ob) excluded then inner cb rest' excluded
        else if covers cb (snd ob) then inner cb rest' (fst ob :: excluded)
        else inner cb rest' excluded
    end.

  (* for (index, cb) in nms_boxes.iter().enumerate() *)
  Fixpoint outer (boxes : list cand) (excluded : list nat) : list nat :=
    match boxes with
    | [] => excluded
    | cb :: rest =>
        if mem (fst cb) excluded then outer rest excluded
        else outer rest (inner (snd cb) rest excluded)
    end.

  Definition nms_cands (l : list B) : list cand :=
    let nms_boxes := sorted_candidates l in
    let excluded := outer nms_boxes [] in
    filter (fun e => negb (mem (fst e) excluded)) nms_boxes.

  Definition nms_loop (l : list B) : list B := map snd (nms_cands l).

  (* the recursive reading *)
  Definition nms_rec (l : list B) : list B := greedy B covers (sort_desc B rank (filter passes l)).
End Nms.

(* ------------------------------------------------------------------------------------------------ *)
(* Executable instance used by the correspondence check. *)

Record det := { d_id : N;                 (* position in the caller's slice *)
                d_score : option Q;
                d_height : Q;
                d_aspect : Q }.

Definition F32_MAX : Q := 340282346638528859811704183484516925440 # 1.   (* f32::MAX = 2^128 - 2^104; f32::MIN = -f32::MAX *)

Definition Qgtb (a b : Q) : bool := negb (Qle_bool a b).                  (* a > b *)

Definition det_passes (score_threshold : option Q) (d : det) : bool :=
  let st := match score_threshold with Some t => t | None => Qopp F32_MAX end in
  Qgtb (match d_score d with Some s => s | None => F32_MAX end) st
  && Qgtb (d_height d) 0 && Qgtb (d_aspect d) 0.

Definition det_rank (d : det) : Q := match d_score d with Some s => s | None => d_height d end.

(* coverage ratios as computed by the implementation's own functions, sparse: rows by the higher-ranked box,
   entries by the lower one; absent = 0 (also for NaN, for which `metric > thr` is false as well) *)
Definition metric_tab := list (N * list (N * Q)).

Fixpoint assocN {V : Type} (k : N) (l : list (N * V)) : option V :=
  match l with
  | [] => None
  | (k', v) :: r => if N.eqb k k' then Some v else assocN k r
  end.

Definition metric_of (tab : metric_tab) (hi lo : N) : Q :=
  match assocN hi tab with
  | None => 0
  | Some row => match assocN lo row with None => 0 | Some m => m end
  end.

Definition det_covers (tab : metric_tab) (nms_threshold : Q) (hi lo : det) : bool :=
  Qgtb (metric_of tab (d_id hi) (d_id lo)) nms_threshold.

(* kept positions (in output order) according to the loop model and to the recursive reading *)
Definition run_case (score_threshold : option Q) (nms_threshold : Q) (tab : metric_tab) (dets : list det)
  : list N * list N :=
  (map d_id (nms_loop det det_rank (det_passes score_threshold) (det_covers tab nms_threshold) dets),
   map d_id (nms_rec det det_rank (det_passes score_threshold) (det_covers tab nms_threshold) dets)).
