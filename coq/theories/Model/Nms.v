(* Model of src/utils/nms.rs (C14).  The control structure (filter, enumerate, stable sort, the two loops over the
   excluded set) is hand-written and tied to the code by the exact correspondence in tools/props/c14.py (kept
   indices of the real `nms` vs. this model); the decisions of the executable instance (score filter, rank,
   coverage ratio and its comparison with the threshold) are the text translated from nms.rs (gen/ScalarNms.v).

   Rust, for reference (nms.rs:33-77):

     let score_threshold = score_threshold.unwrap_or(f32::MIN);
     let nms_boxes = detections.iter()
         .filter(|(e, score)| score.unwrap_or(f32::MAX) > score_threshold && e.height > 0.0 && e.aspect > 0.0)
         .enumerate()                                            // index AFTER the filter
         .map(|(index, (b, score))| Candidate::new(b, score, index))   // rank = score.unwrap_or(b.height)
         .sorted_by(|a, b| b.rank.partial_cmp(&a.rank).unwrap())       // stable, descending
         .collect::<Vec<_>>();
     let mut excluded = HashSet::new();
     for (index, cb) in nms_boxes.iter().enumerate() {
         if excluded.contains(&cb.index) { continue; }
         for ob in &nms_boxes[index + 1..] {
             if excluded.contains(&ob.index) { continue; }
             let metric = Universal2DBox::intersection(cb.bbox, ob.bbox) as f32 / ob.bbox.area();
             if metric > nms_threshold { excluded.insert(ob.index); }
         }
     }
     nms_boxes.into_iter().filter(|e| !excluded.contains(&e.index)).map(|e| e.bbox).collect()
*)
From Coq Require Import List NArith QArith Bool Arith.
From Similari Require Import Base.Num.
From SimilariGen Require Import Scalar ScalarBox ScalarNms.
Import ListNotations.

(* itertools' sorted_by = Vec::sort_by: a stable sort.  With the comparator b.rank.cmp(a.rank) the result is
   descending in the key and elements with equal keys keep their input order.  Insertion sort from the right:
   the element being inserted stood before everything already in the list, so it is placed before the first
   element whose key is not strictly greater. *)
Section StableSort.
  Variable X : Type.
  Variable key : X -> Q.

  Definition key_lt (a b : X) : bool := negb (Qle_bool (key b) (key a)).   (* key a < key b *)

  Fixpoint insert_desc (e : X) (l : list X) : list X :=
    match l with
    | [] => [e]
    | x :: xs => if key_lt e x then x :: insert_desc e xs else e :: l
    end.

  Definition sort_desc (l : list X) : list X := fold_right insert_desc [] l.
End StableSort.

(* The recursive reading of greedy suppression: keep the head, drop what it covers, recurse. *)
Section Greedy.
  Variable X : Type.
  Variable cov : X -> X -> bool.      (* cov hi lo *)

  Fixpoint greedy_n (n : nat) (s : list X) : list X :=
    match n, s with
    | S n', b :: r => b :: greedy_n n' (filter (fun o => negb (cov b o)) r)
    | _, _ => []
    end.

  Definition greedy (s : list X) : list X := greedy_n (length s) s.
End Greedy.

Section Nms.
  Variable B : Type.                  (* a detection: the box together with its optional score *)
  Variable rank : B -> Q.             (* score.unwrap_or(bbox.height), the exact rational of the f32 *)
  Variable passes : B -> bool.        (* score filter and positive size *)
  Variable covers : B -> B -> bool.   (* ORACLE: covers hi lo = (intersection(hi, lo) as f32 / lo.area() > nms_threshold) *)

  Definition cand := (nat * B)%type.  (* Candidate { index, bbox, rank } *)

  Fixpoint enumerate_from (k : nat) (l : list B) : list cand :=
    match l with
    | [] => []
    | b :: r => (k, b) :: enumerate_from (S k) r
    end.

  Definition candidates (l : list B) : list cand := enumerate_from 0 (filter passes l).

  Definition crank (c : cand) : Q := rank (snd c).

  Definition sorted_candidates (l : list B) : list cand := sort_desc cand crank (candidates l).

  (* HashSet<usize> as a list; only membership is ever observed *)
  Definition mem (i : nat) (s : list nat) : bool := existsb (Nat.eqb i) s.

  (* for ob in &nms_boxes[index + 1..] *)
  Fixpoint inner (cb : B) (rest : list cand) (excluded : list nat) : list nat :=
    match rest with
    | [] => excluded
    | ob :: rest' =>
        if mem (fst ob) excluded then inner cb rest' excluded
        else if covers cb (snd ob) then inner cb rest' (fst ob :: excluded)
        else inner cb rest' excluded
    end.

  (* for (index, cb) in nms_boxes.iter().enumerate() *)
  Fixpoint outer (boxes : list cand) (excluded : list nat) : list nat :=
    match boxes with
    | [] => excluded
    | cb :: rest =>
        if mem (fst cb) excluded then outer rest excluded
        else outer rest (inner (snd cb) rest excluded)
    end.

  Definition nms_cands (l : list B) : list cand :=
    let nms_boxes := sorted_candidates l in
    let excluded := outer nms_boxes [] in
    filter (fun e => negb (mem (fst e) excluded)) nms_boxes.

  Definition nms_loop (l : list B) : list B := map snd (nms_cands l).

  (* the recursive reading *)
  Definition nms_rec (l : list B) : list B := greedy B covers (sort_desc B rank (filter passes l)).
End Nms.

(* ------------------------------------------------------------------------------------------------ *)
(* The instance that runs next to the implementation.  Its three decisions are NOT hand-written: they are the
   definitions TRANSLATED from src/utils/nms.rs on every run (gen/ScalarNms.v), at exact rationals:
     passes  = nms_score_filter e score (nms_score_threshold_default score_threshold)
     rank    = nms_rank bbox score
     covers  = nms_covers_cmp (nms_metric ob.bbox (intersection(cb, ob) as f32)) nms_threshold
   Only the value `Universal2DBox::intersection(cb, ob) as f32` is an oracle (a table filled by the harness with the
   crate's own function; its numeric meaning is C08's subject).  The division by the area of the LOWER box and the
   strict comparison are the translated text.  (The implementation divides in f32: cases in which the exact ratio is
   within a relative 1e-6 of the threshold without being equal to it are counted as near-ties by the driver and not
   compared.) *)

Record det := { d_id : N;                          (* position in the caller's slice *)
                d_box : Universal2DBox Qops;       (* exact rationals of the f32 fields *)
                d_score : option Q }.

Definition det_passes (score_threshold : option Q) (d : det) : bool :=
  nms_score_filter Qops (d_box d) (d_score d) (nms_score_threshold_default Qops score_threshold).

Definition det_rank (d : det) : Q := nms_rank Qops (d_box d) (d_score d).

(* intersection areas as computed by the implementation's own function, sparse: rows by the higher-ranked box,
   entries by the lower one; absent = 0 (also for NaN: NaN / area > thr is false as well) *)
Definition inter_tab := list (N * list (N * Q)).

Fixpoint assocN {V : Type} (k : N) (l : list (N * V)) : option V :=
  match l with
  | [] => None
  | (k', v) :: r => if N.eqb k k' then Some v else assocN k r
  end.

Definition inter_of (tab : inter_tab) (hi lo : N) : Q :=
  match assocN hi tab with
  | None => 0
  | Some row => match assocN lo row with None => 0 | Some m => m end
  end.

Definition det_covers (tab : inter_tab) (nms_threshold : Q) (hi lo : det) : bool :=
  nms_covers_cmp Qops (nms_metric Qops (d_box lo) (inter_of tab (d_id hi) (d_id lo))) nms_threshold.

Definition nms_translated (score_threshold : option Q) (nms_threshold : Q) (tab : inter_tab) (dets : list det) : list det :=
  nms_loop det det_rank (det_passes score_threshold) (det_covers tab nms_threshold) dets.

(* kept positions (in output order) according to the loop model and to the recursive reading *)
Definition run_case (score_threshold : option Q) (nms_threshold : Q) (tab : inter_tab) (dets : list det)
  : list N * list N :=
  (map d_id (nms_translated score_threshold nms_threshold tab dets),
   map d_id (nms_rec det det_rank (det_passes score_threshold) (det_covers tab nms_threshold) dets)).

(* constructor used by the driver: id, xc, yc, angle, aspect, height, score *)
Definition mk_det (id : N) (xc yc : Q) (angle : option Q) (aspect height : Q) (score : option Q) : det :=
  {| d_id := id; d_box := Build_Universal2DBox Qops xc yc angle aspect height 1; d_score := score |}.
