(* C18 - boolean checkers over the regenerated table of the pyo3 binding layer (gen/Bindings.v).

   The table is produced from /repo's sources on every run by tools/pybind2v.py; every checker below is a total
   boolean function of one table row (plus the table itself where a row refers to another row), and the
   theorems of Props/C18.v are `forall item, In item bindings -> chk item = true`.

   What is REVIEWED BY HAND lives in this file as explicit lists: the conversions a wrapper may apply to an
   argument / a result, the renames (wrapper name <> wrapped name), constant arguments, the documented defaults,
   the wrapper-side preconditions, the bodies that do not fit the classified fragment (with the hash of their
   token text, so that any edit of such a body breaks the theorem until it is reviewed again) and the classes
   that are deliberately not registered in the module. *)
From Coq Require Import String List QArith Bool Ascii.
From SimilariGen Require Import Bindings.
Import ListNotations.
Open Scope string_scope.

(* ------------------------------------------------------------------------------------------------ *)
(* small string utilities *)

Definition mem (s : string) (l : list string) : bool := existsb (String.eqb s) l.

Fixpoint strip_prefix (p s : string) : option string :=
  match p with
  | EmptyString => Some s
  | String a p' => match s with
                   | EmptyString => None
                   | String b s' => if Ascii.eqb a b then strip_prefix p' s' else None
                   end
  end.

Definition has_prefix (p s : string) : bool := match strip_prefix p s with Some _ => true | None => false end.

(* "Foo<'static>" -> "Foo" *)
Fixpoint head_type (s : string) : string :=
  match s with
  | EmptyString => EmptyString
  | String a s' => if Ascii.eqb a "<"%char then EmptyString else String a (head_type s')
  end.

Fixpoint list_eqb (a b : list string) : bool :=
  match a, b with
  | [], [] => true
  | x :: a', y :: b' => String.eqb x y && list_eqb a' b'
  | _, _ => false
  end.

Definition mem3 (x : string * string * string) (l : list (string * string * string)) : bool :=
  existsb (fun y => String.eqb (fst (fst x)) (fst (fst y)) && String.eqb (snd (fst x)) (snd (fst y)) && String.eqb (snd x) (snd y)) l.

Definition lookupQ (k : string) (l : list (string * Q)) : option Q :=
  match find (fun e => String.eqb k (fst e)) l with Some e => Some (snd e) | None => None end.

Definition lookupS (k : string) (l : list (string * string)) : option string :=
  match find (fun e => String.eqb k (fst e)) l with Some e => Some (snd e) | None => None end.

Definition is_class (rust_name : string) : bool := existsb (fun c => String.eqb (c_rust c) rust_name) classes.

(* ------------------------------------------------------------------------------------------------ *)
(* REVIEWED: conversions *)

(* what a wrapper may do to a parameter before handing it to the wrapped function *)
Definition allowed_arg_convs : list string := [
  "ref"; "dot0"; "dot:state"; "dot:inner"; "try_into"; "as _"; "transmute"; "array";
  "map(|x|x.0)"; "map(Cow::Owned)";
  "unwrap_or(PyPositionalMetricType::maha())";
  "Point2::from(_)";
  "iter()"; "into_iter()"; "collect()";
  "map(|(x,y)|Point2::from([*x,*y]))";
  "map(|s|*s.inner())";
  "map(|e|{VisualSortObservation::new(e.feature.as_deref(),e.feature_quality,e.bounding_box.clone(),e.custom_object_id)})"
].

(* functions a result may be mapped through *)
Definition allowed_result_maps : list string := [
  "map(PyWastedSortTrack)"; "map(WastedSortTrack::from)";
  "map(PyWastedVisualSortTrack)"; "map(WastedVisualSortTrack::from)";
  "map(PyUniversal2DBox)"; "map(PyPoint2DKalmanFilterState::new)"; "map(PyPredictionBatchResult)";
  "map(|e|i64::try_from(e).unwrap())"; "map(|c|(c.x,c.y))"
].

Definition allowed_result_convs : list string := [
  "gil_released"; "transmute"; "ok"; "clone"; "try_into"; "unwrap"; "expect"; "collect"; "into_iter"; "cloned";
  (* self.0 = self.0.clone().method(args): a consuming builder method, its result stored back into the wrapper *)
  "assign_inner"; "on_clone"
].

Definition rconv_ok (c : string) : bool :=
  mem c allowed_result_convs || mem c allowed_result_maps ||
  match strip_prefix "wrap:" c with Some w => is_class w | None => false end.

Definition rconvs_ok (l : list string) : bool := forallb rconv_ok l.

(* an argument that is not built from a parameter: a literal ("const:0") or the wrapped value ("self:...") *)
Definition special_conv (c : string) : bool := has_prefix "const:" c || has_prefix "self:" c.
Definition is_special (a : arg) : bool := existsb special_conv (a_convs a).

(* REVIEWED: (class, python name, target, the constant) *)
Definition reviewed_special_args : list (string * string * string * list string) := [
  ("Sort", "current_epoch", "current_epoch_with_scene", ["const:0"]);
  ("Sort", "predict", "predict_with_scene", ["const:0"]);
  ("Sort", "idle_tracks", "idle_tracks_with_scene", ["const:0"]);
  ("BatchSort", "current_epoch", "current_epoch_with_scene", ["const:0"]);
  ("BatchVisualSort", "current_epoch", "current_epoch_with_scene", ["const:0"]);
  ("VisualSort", "current_epoch", "current_epoch_with_scene", ["const:0"]);
  ("VisualSort", "predict", "predict_with_scene", ["const:0"]);
  ("VisualSort", "idle_tracks", "idle_tracks_with_scene", ["const:0"]);
  ("Universal2DBox", "ltwh", "ltwh_with_confidence", ["const:1.0"]);
  ("Universal2DBoxKalmanFilterState", "universal_bbox", "try_from", ["self:self.state"])
].

Definition special_ok (cls name target : string) (a : arg) : bool :=
  existsb (fun e => match e with (c, n, t, cv) =>
     String.eqb c cls && String.eqb n name && String.eqb t target && list_eqb cv (a_convs a) end) reviewed_special_args
  && match a_srcs a with [] => true | _ => false end.

Definition arg_ok (cls name target : string) (a : arg) : bool :=
  if is_special a then special_ok cls name target a
  else forallb (fun c => mem c allowed_arg_convs) (a_convs a).

(* ------------------------------------------------------------------------------------------------ *)
(* REVIEWED: renames (class, python name, wrapped function) *)

Definition renames : list (string * string * string) := [
  ("PositionalMetricType", "iou", "IoU");
  ("SpatioTemporalConstraints", "__new__", "default");
  ("VisualSortOptions", "__new__", "default");
  ("VisualSortOptions", "visual_metric", "set_visual_kind");
  ("VisualSortOptions", "positional_metric", "set_positional_kind");
  ("Sort", "current_epoch", "current_epoch_with_scene");
  ("Sort", "predict", "predict_with_scene");
  ("Sort", "idle_tracks", "idle_tracks_with_scene");
  ("BatchSort", "current_epoch", "current_epoch_with_scene");
  ("BatchSort", "idle_tracks", "idle_tracks_with_scene");
  ("BatchVisualSort", "current_epoch", "current_epoch_with_scene");
  ("BatchVisualSort", "idle_tracks", "idle_tracks_with_scene");
  ("VisualSort", "current_epoch", "current_epoch_with_scene");
  ("VisualSort", "predict", "predict_with_scene");
  ("VisualSort", "idle_tracks", "idle_tracks_with_scene");
  ("VisualSort", "idle_tracks_with_scene_py", "idle_tracks_with_scene");
  ("VisualSort", "shard_stats", "active_shard_stats");
  ("Universal2DBox", "rotate", "rotate_mut");
  ("Universal2DBox", "ltwh", "ltwh_with_confidence");
  ("Polygon", "get_points", "coords_iter");
  ("Universal2DBoxKalmanFilterState", "universal_bbox", "try_from");
  ("Universal2DBoxKalmanFilterState", "bbox", "as_ltwh")
].

(* REVIEWED: receivers other than the wrapped value itself (class, python name, receiver) *)
Definition reviewed_receivers : list (string * string * string) := [
  ("Sort", "shard_stats", "self.0.store.read().unwrap()");
  ("BatchSort", "shard_stats", "self.0.store.read().unwrap()");
  ("BatchVisualSort", "shard_stats", "self.0.store.read().unwrap()");
  ("Universal2DBoxKalmanFilterState", "bbox", "self.universal_bbox()")
].

(* REVIEWED: static paths that are not the wrapped type of the class (class, python name, type) *)
Definition reviewed_static : list (string * string * string) := [
  ("Universal2DBoxKalmanFilterState", "universal_bbox", "Universal2DBox")
].

(* REVIEWED: enum variants / struct literals built directly (class, python name, what) *)
Definition reviewed_constructs : list (string * string * string) := [
  ("PositionalMetricType", "maha", "PositionalMetricType::Mahalanobis");
  ("VisualSortObservation", "__new__", "VisualSortObservation")
].

Definition name_ok (it : item) (target : string) : bool :=
  String.eqb target (i_rust_name it) || String.eqb target (i_name it)
  || (match i_kind it with KNew => String.eqb target "new" | _ => false end)
  || (match i_kind it with KFunction => String.eqb (target ++ "_py") (i_rust_name it) | _ => false end)
  || mem3 (i_class it, i_name it, target) renames.

(* the VisualSortOptions-style builder methods: method X of the python class calls set_X on a sub-object *)
Definition builder_name_ok (it : item) (target : string) : bool :=
  String.eqb target ("set_" ++ i_name it) || mem3 (i_class it, i_name it, target) renames.

Definition same_class_method (it : item) (target : string) : bool :=
  existsb (fun o => String.eqb (i_class o) (i_class it) && String.eqb (i_rust_name o) target) bindings.

Definition recv_ok (it : item) (r : recv) (target : string) : bool :=
  match r with
  | RInner => name_ok it target
  | RSelf => same_class_method it target && (name_ok it target || String.eqb target "__repr__")
  | RStatic ty => (String.eqb ty (head_type (i_wrapped it)) || mem3 (i_class it, i_name it, ty) reviewed_static) && name_ok it target
  | RParam => name_ok it target
  | RFree => name_ok it target
  | RInnerPath p =>
      if String.eqb p "metric_builder" then builder_name_ok it target
      else mem3 (i_class it, i_name it, p) reviewed_receivers && name_ok it target
  end.

Definition param_names (it : item) : list string := map p_name (i_params it).

(* every parameter is forwarded exactly once, in declaration order *)
Definition forwards_in_order (it : item) (args : list arg) : bool :=
  list_eqb (flat_map a_srcs args) (param_names it).

(* ------------------------------------------------------------------------------------------------ *)
(* transmutes: `std::mem::transmute` between a container of wrappers and the same container of wrapped values is
   only accepted for the REVIEWED container types, and only while every wrapper involved is #[repr(transparent)]
   over its single field.  (That the two Vec / tuple layouts really coincide is an assumption about rustc that no
   Gallina model reaches: C18 observes it through the differential run only.) *)

Definition reviewed_transmute_types : list (string * list string) := [
  ("Vec<(PyUniversal2DBox,Option<i64>)>", ["PyUniversal2DBox"]);
  ("Vec<(PyUniversal2DBox,Option<f32>)>", ["PyUniversal2DBox"]);
  ("Vec<PyUniversal2DBox>", ["PyUniversal2DBox"]);
  ("Vec<PySortTrack>", ["PySortTrack"]);
  ("PySceneTracks", ["PySortTrack"])
].

Definition transparent_class (w : string) : bool :=
  existsb (fun c => String.eqb (c_rust c) w && c_transparent c) classes.

Definition transmute_type_ok (ty : string) : bool :=
  match find (fun e => String.eqb (fst e) ty) reviewed_transmute_types with
  | Some (_, ws) => forallb transparent_class ws
  | None => false
  end.

Definition param_type (it : item) (p : string) : string :=
  match find (fun q => String.eqb (p_name q) p) (i_params it) with Some q => p_type q | None => "" end.

Definition transmutes_ok (it : item) : bool :=
  let args := match i_body it with Delegate _ _ args _ => args | Construct _ args _ => args | FieldWrite _ _ a => [a] | _ => [] end in
  let rc := match i_body it with Delegate _ _ _ rc => rc | Construct _ _ rc => rc | FieldRead _ rc => rc | _ => [] end in
  forallb (fun a => if mem "transmute" (a_convs a)
                    then forallb (fun p => transmute_type_ok (param_type it p)) (a_srcs a) else true) args
  && (if mem "transmute" rc then transmute_type_ok (i_ret it) else true).

(* ------------------------------------------------------------------------------------------------ *)
(* getters / setters *)

Definition getter_ok (it : item) : bool :=
  match i_kind it with
  | KGetter =>
      match i_params it with
      | [] =>
          match i_body it with
          | FieldRead f rc => String.eqb f (i_name it) && rconvs_ok rc && transmutes_ok it
          | Delegate RInner t [] rc => (String.eqb t (i_name it) || String.eqb t ("get_" ++ i_name it)) && rconvs_ok rc && transmutes_ok it
          | _ => false
          end
      | _ => false
      end
  | _ => true
  end.

Definition plain_param_arg (it : item) (a : arg) : bool :=
  match i_params it, a_srcs a, a_convs a with
  | [p], [s], [] => String.eqb (p_name p) s
  | _, _, _ => false
  end.

Definition setter_ok (it : item) : bool :=
  match i_kind it with
  | KSetter =>
      match i_body it with
      | FieldWrite "" f a => String.eqb f (i_name it) && plain_param_arg it a
      | Delegate RInner t [a] [] => String.eqb t ("set_" ++ i_name it) && plain_param_arg it a
      | _ => false
      end
  | _ => true
  end.

(* ------------------------------------------------------------------------------------------------ *)
(* delegation *)

Definition delegate_ok (it : item) : bool :=
  match i_kind it with
  | KGetter | KSetter => true       (* getter_ok / setter_ok *)
  | _ =>
    match i_body it with
    | Delegate r t args rc =>
        recv_ok it r t && forwards_in_order it args && forallb (arg_ok (i_class it) (i_name it) t) args && rconvs_ok rc
        && transmutes_ok it
    | Construct ty args rc =>
        mem3 (i_class it, i_name it, ty) reviewed_constructs
        && forwards_in_order it args
        && forallb (fun a => arg_ok (i_class it) (i_name it) ty a &&
                             (String.eqb (a_label a) "" || list_eqb (a_srcs a) [a_label a])) args
        && rconvs_ok rc
    | FieldWrite path f a =>
        (* a builder-style method: method X writes field X of the wrapped value *)
        String.eqb path "" && (String.eqb f (i_name it) || mem3 (i_class it, i_name it, f) renames)
        && forwards_in_order it [a] && arg_ok (i_class it) (i_name it) f a
    | FieldRead f rc =>
        (* a plain method reading a field: must be the field it names *)
        String.eqb f (i_name it) && rconvs_ok rc && match i_params it with [] => true | _ => false end
    | Format _ _ | ConstVal _ | Other _ => true      (* no_other_ok *)
    end
  end.

(* ------------------------------------------------------------------------------------------------ *)
(* defaults *)

Inductive expect :=
| EPinned (q : Q)                       (* documented value, no Rust-side constant exists *)
| ERustDefault (key : string) (q : Q)   (* equals the named entry of `impl Default` (and the documented value q) *)
| ERustConst (name : string) (q : Q)    (* equals the named Rust constant *)
| ENoneForwarded                        (* Python None reaches the wrapped function as Option::None *)
| ENoneEnumDefault (conv enum ctor : string).   (* None -> unwrap_or(ctor()) and ctor builds the enum's #[default] variant *)

(* REVIEWED: the documented defaults: (class, python name, parameter) -> expectation.
   Sources: the wrapper doc comments / signatures as released, the python examples under /repo/python, and the
   Rust `Default` impls / constants named here. *)
Definition documented_defaults : list (string * string * string * expect) := [
  ("Sort", "__new__", "shards", EPinned (4 # 1));
  ("Sort", "__new__", "bbox_history", EPinned (1 # 1));
  ("Sort", "__new__", "max_idle_epochs", EPinned (5 # 1));
  ("Sort", "__new__", "method", ENoneEnumDefault "unwrap_or(PyPositionalMetricType::maha())" "PositionalMetricType" "maha");
  ("Sort", "__new__", "min_confidence", ERustConst "DEFAULT_MINIMAL_SORT_CONFIDENCE" (1 # 20));
  ("Sort", "__new__", "spatio_temporal_constraints", ENoneForwarded);
  ("Sort", "__new__", "kalman_position_weight", ERustDefault "SortAttributesOptions::default.position_weight" (1 # 20));
  ("Sort", "__new__", "kalman_velocity_weight", ERustDefault "SortAttributesOptions::default.velocity_weight" (1 # 160));
  ("BatchSort", "__new__", "distance_shards", EPinned (4 # 1));
  ("BatchSort", "__new__", "voting_shards", EPinned (4 # 1));
  ("BatchSort", "__new__", "bbox_history", EPinned (1 # 1));
  ("BatchSort", "__new__", "max_idle_epochs", EPinned (5 # 1));
  ("BatchSort", "__new__", "method", ENoneEnumDefault "unwrap_or(PyPositionalMetricType::maha())" "PositionalMetricType" "maha");
  ("BatchSort", "__new__", "min_confidence", ERustConst "DEFAULT_MINIMAL_SORT_CONFIDENCE" (1 # 20));
  ("BatchSort", "__new__", "spatio_temporal_constraints", ENoneForwarded);
  ("BatchSort", "__new__", "kalman_position_weight", ERustDefault "SortAttributesOptions::default.position_weight" (1 # 20));
  ("BatchSort", "__new__", "kalman_velocity_weight", ERustDefault "SortAttributesOptions::default.velocity_weight" (1 # 160));
  ("SortPredictionBatchRequest", "add", "custom_object_id", ENoneForwarded);
  ("Universal2DBoxKalmanFilter", "__new__", "position_weight", ERustDefault "Universal2DBoxKalmanFilter::default.position_weight" (1 # 20));
  ("Universal2DBoxKalmanFilter", "__new__", "velocity_weight", ERustDefault "Universal2DBoxKalmanFilter::default.velocity_weight" (1 # 160));
  ("Point2DKalmanFilter", "__new__", "position_weight", ERustDefault "Point2DKalmanFilter::default.position_weight" (1 # 20));
  ("Point2DKalmanFilter", "__new__", "velocity_weight", ERustDefault "Point2DKalmanFilter::default.velocity_weight" (1 # 160));
  ("Vec2DKalmanFilter", "__new__", "position_weight", ERustDefault "Vec2DKalmanFilter::default.f.position_weight" (1 # 20));
  ("Vec2DKalmanFilter", "__new__", "velocity_weight", ERustDefault "Vec2DKalmanFilter::default.f.velocity_weight" (1 # 160))
].

Definition lookup_doc (cls name p : string) : option expect :=
  match find (fun e => match e with (c, n, q, _) => String.eqb c cls && String.eqb n name && String.eqb q p end) documented_defaults with
  | Some (_, _, _, x) => Some x
  | None => None
  end.

(* conversions applied by the body to parameter p (None when p is not forwarded by a Delegate/Construct body) *)
Definition convs_of_param (it : item) (p : string) : option (list string) :=
  let args := match i_body it with Delegate _ _ args _ => args | Construct _ args _ => args | FieldWrite _ _ a => [a] | _ => [] end in
  match find (fun a => mem p (a_srcs a)) args with Some a => Some (a_convs a) | None => None end.

Definition ctor_builds_default_variant (enum ctor : string) : bool :=
  match lookupS enum rust_enum_defaults with
  | Some v => existsb (fun o => String.eqb (i_class o) enum && String.eqb (i_name o) ctor &&
                               match i_body o, i_params o with
                               | Construct ty [] _, [] => String.eqb ty (enum ++ "::" ++ v)
                               | _, _ => false
                               end) bindings
  | None => false
  end.

Definition no_unwrap_or (cv : list string) : bool := negb (existsb (has_prefix "unwrap_or") cv).

Definition expect_ok (it : item) (p : param) (x : expect) : bool :=
  match x, p_default p with
  | EPinned q, DNum d => Qeq_bool d q
  | ERustDefault key q, DNum d =>
      Qeq_bool d q && match lookupQ key rust_defaults with Some r => Qeq_bool d r | None => false end
  | ERustConst name q, DNum d =>
      Qeq_bool d q && match lookupQ name rust_consts with Some r => Qeq_bool d r | None => false end
  | ENoneForwarded, DNone =>
      match convs_of_param it (p_name p) with Some cv => no_unwrap_or cv | None => false end
  | ENoneEnumDefault conv enum ctor, DNone =>
      match convs_of_param it (p_name p) with Some cv => mem conv cv | None => false end
      && ctor_builds_default_variant enum ctor
  | _, _ => false
  end.

Definition default_ok (it : item) : bool :=
  forallb (fun p => match p_default p with
                    | DReq => match lookup_doc (i_class it) (i_name it) (p_name p) with None => true | Some _ => false end
                    | _ => match lookup_doc (i_class it) (i_name it) (p_name p) with
                           | Some x => expect_ok it p x
                           | None => false      (* an undocumented default *)
                           end
                    end) (i_params it).

(* every documented default is still there (a dropped default argument breaks this) *)
Definition documented_present (e : string * string * string * expect) : bool :=
  match e with (c, n, p, _) =>
    existsb (fun it => String.eqb (i_class it) c && String.eqb (i_name it) n &&
                       existsb (fun q => String.eqb (p_name q) p && match p_default q with DReq => false | _ => true end) (i_params it)) bindings
  end.

(* ------------------------------------------------------------------------------------------------ *)
(* registration *)

(* REVIEWED: #[pyclass]es that are deliberately not added to the module (only ever returned, never constructed) *)
Definition unregistered_reviewed : list string := ["PyVotingType"].

Definition class_registered (c : pyclass) : bool :=
  mem (c_rust c) registered_classes || mem (c_rust c) unregistered_reviewed.

Definition registered_ok (it : item) : bool :=
  match i_kind it with
  | KFunction => mem (i_rust_name it) registered_functions
  | _ => mem (i_rust_class it) registered_classes || mem (i_rust_class it) unregistered_reviewed
  end.

(* python-visible names are unique inside a class (a getter and a setter may share the attribute name) *)
Definition same_slot (a b : item) : bool :=
  String.eqb (i_class a) (i_class b) && String.eqb (i_name a) (i_name b) &&
  match i_kind a, i_kind b with
  | KGetter, KSetter | KSetter, KGetter => false
  | _, _ => true
  end.

Definition name_unique (it : item) : bool :=
  Nat.eqb (List.length (filter (same_slot it) bindings)) 1.

Definition class_name_unique (c : pyclass) : bool :=
  Nat.eqb (List.length (filter (fun d => String.eqb (c_py d) (c_py c)) classes)) 1.

(* ------------------------------------------------------------------------------------------------ *)
(* bodies outside the classified fragment, wrapper preconditions *)

(* REVIEWED (class, python name, sha256[:16] of the body's token text):
   version               env!("CARGO_PKG_VERSION").to_string()
   BatchSort.predict     self.0.predict(batch.0.batch); PyPredictionBatchResult(batch.0.result.take().unwrap())
   BatchVisualSort.predict   rebuilds a PredictionBatchRequest<VisualSortObservation> from the python request (borrowing
                         the features), calls predict, returns the NEW request's result handle
   Universal2DBox.as_ltwh    BoundingBox::try_from(&self.0), Err -> PyAttributeError
   intersection_area     sutherland_hodgman_clip_py(subject, clipping).0.unsigned_area()
   Point2DKalmanFilterState.x / .y   self.state.mean[0] / [1] *)
Definition reviewed_other : list (string * string * string) := [
  ("", "version", "34eea33e909a7fcf");
  ("BatchSort", "predict", "7e7413e2332ba451");
  ("BatchVisualSort", "predict", "33c02dc77b3883a1");
  ("Universal2DBox", "as_ltwh", "d9029dc4cc33412c");
  ("", "intersection_area", "34d193390d1f0a06");
  ("Point2DKalmanFilterState", "x", "c7a5305b7570e977");
  ("Point2DKalmanFilterState", "y", "bd7e05a30abec38d")
].

(* REVIEWED: wrapper-side preconditions (they narrow the python domain: i64 arguments must be positive /
   non-negative before the conversion to usize / u64; the confidence / threshold ranges repeat the asserts of the
   wrapped constructors) *)
Definition reviewed_pre : list (string * string * list string) := [
  ("PositionalMetricType", "iou", ["assert!(threshold>0.0&&threshold<1.0,""Threshold must lay between (0.0 and 1.0)"")"]);
  ("BatchSort", "skip_epochs", ["assert!(n>0)"]);
  ("BatchSort", "skip_epochs_for_scene", ["assert!(n>0&&scene_id>=0)"]);
  ("BatchSort", "current_epoch_with_scene", ["assert!(scene_id>=0)"]);
  ("Sort", "skip_epochs", ["assert!(n>0)"]);
  ("Sort", "skip_epochs_for_scene", ["assert!(n>0&&scene_id>=0)"]);
  ("Sort", "current_epoch_with_scene", ["assert!(scene_id>=0)"]);
  ("Sort", "predict_with_scene", ["assert!(scene_id>=0)"]);
  ("BatchVisualSort", "skip_epochs", ["assert!(n>0)"]);
  ("BatchVisualSort", "skip_epochs_for_scene", ["assert!(n>0&&scene_id>=0)"]);
  ("BatchVisualSort", "current_epoch_with_scene", ["assert!(scene_id>=0)"]);
  ("VisualSort", "__new__", ["assert!(shards>0)"]);
  ("VisualSort", "skip_epochs", ["assert!(n>0)"]);
  ("VisualSort", "skip_epochs_for_scene", ["assert!(n>0&&scene_id>=0)"]);
  ("VisualSort", "current_epoch_with_scene", ["assert!(scene_id>=0)"]);
  ("VisualSort", "predict_with_scene", ["assert!(scene_id>=0)"]);
  ("Universal2DBox", "new_with_confidence", ["assert!((0.0..=1.0).contains(&confidence),""Confidence must lay between 0.0 and 1.0"")"])
].

Definition pre_ok (it : item) : bool :=
  match i_pre it with
  | [] => true
  | pre => existsb (fun e => match e with (c, n, l) => String.eqb c (i_class it) && String.eqb n (i_name it) && list_eqb l pre end) reviewed_pre
  end.

Definition no_other_ok (it : item) : bool :=
  pre_ok it &&
  match i_body it with
  | Other h => mem3 (i_class it, i_name it, h) reviewed_other
  | Format spec target =>
      (String.eqb (i_name it) "__repr__" || String.eqb (i_name it) "__str__")
      && (String.eqb spec "?" || String.eqb spec "#?") && (String.eqb target "self" || String.eqb target "inner")
  | ConstVal v =>
      match i_kind it with KClassAttr => String.eqb (i_name it) "__hash__" && String.eqb v "None" | _ => false end
  | _ => match i_kind it with KClassAttr => false | _ => true end
  end.

(* REVIEWED: files with pyo3 items that no `mod` declaration reaches (dead code, not part of the module) *)
Definition reviewed_unreachable : list string := ["src/trackers/visual_sort/visual_sort_py.rs"].
