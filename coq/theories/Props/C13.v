(* C13 - Bounded galleries and histories.
   Property theorems only; proofs live in Proofs/VisualAttrsProofs.v; the model (Model/VisualAttrs.v) mirrors
   VisualMetric::optimize / optimize_observations, VisualAttributes::update_history and SortAttributes::update_history.

   A life of a track is ANY list of (is_merge, detection) steps: is_merge = false is Track::add_observation / the track
   builder (what a first detection goes through), is_merge = true is Track::merge (what every detection that continues a
   track goes through in VisualSort / BatchVisualSort).  Every theorem is for all lives of any length, all options, all
   quality sequences (equal qualities included), features present or absent. *)
From Coq Require Import List NArith QArith Bool Arith Permutation.
From Similari Require Import Model.VisualAttrs Proofs.VisualAttrsProofs.
Import ListNotations.
Local Open Scope nat_scope.

(* At most visual_max_observations observations - hence at most that many appearance features - are stored. *)
Theorem gallery_bounded :
  forall (o : gopts) (steps : list (bool * det)), 1 <= o_max_obs o ->
    length (t_gal (track_run o steps)) <= o_max_obs o /\
    count_feat (t_gal (track_run o steps)) <= o_max_obs o.
Proof. exact gallery_bounded_lemma. Qed.

(* visual_features_collected_count = number of stored observations that carry a feature, in every reachable state. *)
Theorem collected_count_exact :
  forall (o : gopts) (steps : list (bool * det)),
    a_collected (t_attrs (track_run o steps)) = count_feat (t_gal (track_run o steps)).
Proof. exact collected_run. Qed.

(* After a step the newest observation sits at index 0 with its own quality; its feature is stored iff it was supplied
   and - when the detection continues a track (is_merge) - it meets the COLLECT thresholds. *)
Theorem collect_gate :
  forall (o : gopts) (steps : list (bool * det)) (m : bool) (d : det),
    exists e, hd_error (t_gal (track_run o (steps ++ [(m, d)]))) = Some e /\
              g_uid e = d_uid d /\ g_q e = d_q d /\
              (g_feat e = true <-> d_feat d = true /\ (m = true -> can_collect o d = true)).
Proof. exact collect_gate_lemma. Qed.

(* the COLLECT gate is the translated feature_can_be_used of the Rust source (gen/ScalarVisual.v) at the collect
   thresholds: box area, feature quality and, when computed, the exclusively-owned area share, each at or above its minimum *)
Theorem collect_thresholds_exact :
  forall (o : gopts) (d : det),
    can_collect o d = true <->
    (o_min_area o <= d_area d)%Q /\ (o_q_collect o <= d_q d)%Q /\ (forall p, d_own d = Some p -> (o_own_collect o <= p)%Q).
Proof. intros o d. apply feature_can_be_used_iff. Qed.

Theorem newest_at_zero :
  forall (o : gopts) (steps : list (bool * det)) (m : bool) (d : det),
    exists e, hd_error (t_gal (track_run o (steps ++ [(m, d)]))) = Some e /\ g_uid e = d_uid d.
Proof. intros o steps m d. destruct (collect_gate_lemma o steps m d) as (e & H1 & H2 & _). exists e. auto. Qed.

(* Only the newest stored observation may lack a feature (it is dropped by the next update). *)
Theorem only_newest_may_lack_feature :
  forall (o : gopts) (steps : list (bool * det)), 1 <= o_max_obs o ->
    Forall (fun e => g_feat e = true) (tl (t_gal (track_run o steps))).
Proof. exact only_newest_may_lack_feature_lemma. Qed.

(* One update: the observations kept besides the newest one are exactly the previously stored FEATURED ones, minus
   nothing while fewer than max are stored, minus exactly one otherwise - and that one has minimal quality among the
   features stored before the update. *)
Theorem evicts_minimum :
  forall (o : gopts) (steps : list (bool * det)) (m : bool) (d : det), 1 <= o_max_obs o ->
    let g := t_gal (track_run o steps) in
    let g' := t_gal (track_run o (steps ++ [(m, d)])) in
    exists ev, Permutation (filter g_feat g) (ev ++ tl g') /\
      (count_feat g < o_max_obs o -> ev = []) /\
      (o_max_obs o <= count_feat g ->
         exists x, ev = [x] /\ In x g /\ g_feat x = true /\
                   forall y, In y g -> g_feat y = true -> (g_q x <= g_q y)%Q).
Proof. exact evicts_minimum_lemma. Qed.

(* The three VisualSORT histories hold exactly the most recent min(track length, history length) entries (all of them
   when history_length = 0, as the code has it), in arrival order; the feature history records the feature as supplied
   (before the collect gate); track_length counts every update. *)
Theorem history_is_last_k :
  forall (o : gopts) (steps : list (bool * det)),
    let a := t_attrs (track_run o steps) in
    let ds := map snd steps in
    let k := kept (o_hist o) (length steps) in
    a_obs a = map d_uid (lastn k ds) /\
    a_pred a = map d_uid (lastn k ds) /\
    a_feat a = map (fun d => (d_uid d, d_feat d)) (lastn k ds) /\
    a_len a = length steps /\
    length (a_obs a) = k /\ length (a_pred a) = k /\ length (a_feat a) = k.
Proof. exact history_is_last_k_stmt. Qed.

(* The two SORT histories (SortAttributes::update_history). *)
Theorem sort_history_is_last_k :
  forall (h : nat) (uids : list N),
    let a := sort_run h uids in
    let k := kept h (length uids) in
    sa_obs a = lastn k uids /\ sa_pred a = lastn k uids /\ sa_len a = length uids /\ length (sa_obs a) = k.
Proof. exact sort_history_stmt. Qed.

(* The track record (SortTrack / Wasted*Track) echoes the last history entries and the track length. *)
Theorem record_echoes_last :
  forall (o : gopts) (steps : list (bool * det)) (m : bool) (d : det),
    record_of (t_attrs (track_run o (steps ++ [(m, d)]))) = mkRec (Some (d_uid d)) (Some (d_uid d)) (S (length steps)).
Proof. exact record_echoes_last_lemma. Qed.

Theorem sort_record_echoes_last :
  forall (h : nat) (uids : list N) (u : N),
    last (map Some (sa_obs (sort_run h (uids ++ [u])))) None = Some u /\
    last (map Some (sa_pred (sort_run h (uids ++ [u])))) None = Some u.
Proof. exact sort_last_lemma. Qed.

(* ---- non-vacuity ------------------------------------------------------------------------------------------- *)
Definition ex_opts (mx h : nat) : gopts := mkGopts mx h 0 (1#2) 0.
Definition ex_det (u : N) (q : Q) (f : bool) : det := mkDet u q f 100 None.

(* max_obs = 3, history 2, equal qualities, a below-collect-threshold detection, a featureless one *)
Example c13_nonvacuous :
  let life := tracker_steps [ex_det 1 (3#4) true; ex_det 2 (3#4) true; ex_det 3 (1#4) true;
                             ex_det 4 (9#10) true; ex_det 5 (3#4) false; ex_det 6 (3#4) true] in
  let t := track_run (ex_opts 3 2) life in
  map g_uid (t_gal t) = [6; 2; 4]%N /\ map g_feat (t_gal t) = [true; true; true] /\
  a_collected (t_attrs t) = 3 /\ a_obs (t_attrs t) = [5; 6]%N /\ a_len (t_attrs t) = 6 /\
  a_feat (t_attrs t) = [(5%N, false); (6%N, true)].
Proof. vm_compute. repeat split. Qed.

(* max_obs = 1: the gallery is always just the newest observation, featured or not *)
Example c13_max_one :
  let life := tracker_steps [ex_det 1 1 true; ex_det 2 (1#4) true] in
  dump_gallery (t_gal (track_run (ex_opts 1 1) life)) = [((1, 4)%Z, false, 2%N)].
Proof. vm_compute. reflexivity. Qed.
