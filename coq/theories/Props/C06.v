(* C06 - Batch trackers refine simple trackers; one result per scene; no deadlock.
   Property theorems only; model in Model/BatchProto.v, proofs in Proofs/BatchProtoProofs.v.

   All theorems hold for EVERY abstract per-scene tracker (scene state SC, [prep] = what predict does for a
   scene before handing the job over, [write] = the single store write of one candidate), every sequence of
   batches whose scenes are pairwise distinct inside a batch (a HashMap), every number V >= 1 of voting
   threads and every interleaving [sigma] of the main thread (predict ... predict, drop), the voting threads
   and the consumers.  The number of distance shards does not occur: the distance query is synchronous inside
   predict (C10 shows its result does not depend on shards or schedule). *)
From Coq Require Import List NArith Bool Arith Permutation.
From Similari Require Import Model.BatchProto Proofs.BatchProtoProofs.
Import ListNotations.

Section C06.
  Variable SC : Type.
  Variable DET : Type.
  Variable JD : Type.
  Variable REC : Type.
  Variable sc0 : SC.
  Variable prep : SC -> list DET -> SC * JD.
  Variable write : SC -> JD -> nat -> SC * REC * bool.
  Variable V : nat.
  Variable batches : list (batch DET).

  Notation RUN lazy := (brun SC DET JD REC prep write V batches lazy).
  Notation FIRE lazy := (bfire SC DET JD REC prep write V batches lazy).
  Notation FINAL := (bfinal SC DET JD REC batches).
  Notation INIT := (init SC DET JD REC sc0).
  Notation nb := (length batches).

  Hypothesis voting_threads_exist : 0 < V.
  Hypothesis scenes_distinct_in_a_batch : forall bt, In bt batches -> NoDup (map fst bt).

  (* Every complete run delivers, for each batch, exactly one result per scene of the batch (nothing is left
     in the channel), each with one record per detection. *)
  Theorem one_result_per_scene :
    forall lazy sigma st b,
      RUN lazy INIT sigma = Some st -> FINAL st = true -> b < nb ->
      Permutation (map fst (consumed st b)) (map fst (nth b batches [])) /\ chans st b = [] /\
      (forall r, In r (consumed st b) ->
                 exists ds, In (fst r, ds) (nth b batches []) /\ length (snd r) = length ds).
  Proof.
    intro lazy. exact (one_result_per_scene_lemma SC DET JD REC sc0 prep write V batches lazy
                          voting_threads_exist scenes_distinct_in_a_batch).
  Qed.

  (* Under the proviso (results are retrieved by another thread, or at any rate not only after the next
     submission: the consumer is never blocked behind predict) every reachable state that is not final -
     final = all batches submitted, tracker dropped and joined, every result retrieved - has an enabled step. *)
  Theorem no_deadlock :
    forall sigma st,
      RUN false INIT sigma = Some st -> FINAL st = false -> exists l st', FIRE false st l = Some st'.
  Proof.
    intros sigma st. exact (no_deadlock_lemma SC DET JD REC sc0 prep write V batches false voting_threads_exist sigma st eq_refl).
  Qed.

  (* monitor = unfinished jobs of the batch in flight + scenes not yet dispatched; while predict works on
     batch b no job of an earlier batch is unfinished, i.e. predict(k+1) touches epochs and store only after
     every job of batch k has written, sent and decremented; the result channel never holds more than one
     message. *)
  Theorem monitor_protocol :
    forall lazy sigma st,
      RUN lazy INIT sigma = Some st ->
      (forall b, is_created SC DET JD REC st b = true ->
                 mons st b = length (jobs_of JD REC b (jobs st)) + length (undisp SC DET JD REC batches st b)) /\
      (forall b, is_created SC DET JD REC st b = false -> mons st b = 0 /\ jobs_of JD REC b (jobs st) = []) /\
      (forall e, In e (jobs st) ->
         match pc st with
         | MWait b0 => S (ejb JD REC e) = b0
         | MDisp b0 _ _ => ejb JD REC e = b0
         | _ => S (ejb JD REC e) = nb
         end) /\
      (forall b, length (chans st b) <= 1).
  Proof.
    intro lazy. exact (monitor_protocol_lemma SC DET JD REC sc0 prep write V batches lazy voting_threads_exist).
  Qed.

  (* a step changes the state of at most one scene: the one of the job (or of the scene being dispatched) *)
  Theorem scene_local_job :
    forall lazy st l st' s,
      FIRE lazy st l = Some st' -> touched SC DET JD REC st l <> Some s -> scs st' s = scs st s.
  Proof. intro lazy. exact (scene_local_lemma SC DET JD REC prep write V batches lazy). Qed.

  (* Refinement, at the granularity of single store writes: in every complete interleaving the records each
     scene receives, batch after batch (tracks named canonically, i.e. up to renaming of ids), are exactly what
     the simple tracker produces for that scene's own sequence of detection lists. *)
  Theorem batch_refines_simple :
    forall lazy sigma st s,
      RUN lazy INIT sigma = Some st -> FINAL st = true ->
      scene_results SC DET JD REC batches st s = simple_run SC DET JD REC prep write sc0 (proj DET s batches).
  Proof.
    intro lazy. exact (batch_refines_simple_lemma SC DET JD REC sc0 prep write V batches lazy
                          voting_threads_exist scenes_distinct_in_a_batch).
  Qed.

  (* Ids: every id in circulation (in a retrieved or queued result, or in a job's partial result) was drawn from
     the shared counter, and a step either leaves the counter alone or draws counter + 1: a newly issued id
     differs from every id issued before, whatever the interleaving of the voting threads. *)
  Theorem issued_ids_are_fresh :
    forall lazy sigma st,
      RUN lazy INIT sigma = Some st ->
      (forall t, occurs SC DET JD REC st t -> (t <= counter st)%N) /\
      (forall l st', FIRE lazy st l = Some st' -> counter st' = counter st \/ counter st' = (counter st + 1)%N).
  Proof.
    intros lazy sigma st H. split.
    - intro t. exact (ids_bounded_lemma SC DET JD REC sc0 prep write V batches lazy voting_threads_exist sigma st t H).
    - intros l st'. exact (counter_step_lemma SC DET JD REC prep write V batches lazy st l st').
  Qed.

  (* The job queues of the voting threads are unbounded in the model: while predict dispatches the scenes of a
     batch its next step is always enabled, however many jobs are queued. (A bounded queue in the implementation
     is a refinement failure only the correspondence runs can expose.) *)
  Theorem dispatch_never_blocks :
    forall lazy st b rest i, pc st = MDisp b rest i -> exists st', FIRE lazy st BMain = Some st'.
  Proof. intro lazy. exact (dispatch_never_blocks_lemma SC DET JD REC prep write V batches lazy). Qed.

  (* Termination. [bmeasure] is a natural number computed from the state (remaining main-thread steps, remaining
     steps of every queued job, messages in the result channels, voting threads still to exit); every step of every
     thread strictly decreases it, so a run has at most [bmeasure INIT] steps, whatever the schedule. *)
  Theorem measure_decreases :
    forall lazy sigma st l st',
      RUN lazy INIT sigma = Some st -> FIRE lazy st l = Some st' ->
      bmeasure SC DET JD REC V batches st' < bmeasure SC DET JD REC V batches st.
  Proof.
    intro lazy. exact (measure_decreases_lemma SC DET JD REC sc0 prep write V batches lazy voting_threads_exist).
  Qed.

  Theorem batch_terminates :
    forall lazy sigma st,
      RUN lazy INIT sigma = Some st ->
      length sigma + bmeasure SC DET JD REC V batches st <= bmeasure SC DET JD REC V batches INIT.
  Proof.
    intro lazy. exact (batch_terminates_lemma SC DET JD REC sc0 prep write V batches lazy voting_threads_exist).
  Qed.

  (* Under the proviso a run that cannot be extended is complete: tracker shut down and joined, every result of
     every batch retrieved (with one_result_per_scene: exactly one per scene) ... *)
  Theorem every_maximal_run_is_complete :
    forall sigma st,
      RUN false INIT sigma = Some st -> (forall l, FIRE false st l = None) ->
      FINAL st = true /\
      forall b, b < nb -> Permutation (map fst (consumed st b)) (map fst (nth b batches [])) /\ chans st b = [].
  Proof.
    intros sigma st H Hmax.
    pose proof (maximal_run_is_final_lemma SC DET JD REC sc0 prep write V batches false voting_threads_exist
                  sigma st eq_refl H Hmax) as F.
    split; [exact F|]. intros b Hb.
    destruct (one_result_per_scene false sigma st b H F Hb) as (P & C & _). auto.
  Qed.

  (* ... and every run can be extended to such a complete run, of at most [bmeasure INIT] steps in total. *)
  Theorem every_run_can_be_completed :
    forall sigma st,
      RUN false INIT sigma = Some st ->
      exists sigma' st', RUN false INIT (sigma ++ sigma') = Some st' /\ FINAL st' = true /\
                         length (sigma ++ sigma') <= bmeasure SC DET JD REC V batches INIT.
  Proof.
    intros sigma st.
    exact (every_run_completes_lemma SC DET JD REC sc0 prep write V batches false voting_threads_exist sigma st eq_refl).
  Qed.
End C06.

(* The proviso is needed: if the caller retrieves results only after it has submitted everything, a batch of
   two scenes followed by another batch deadlocks (voting thread blocked on the full bounded(1) channel,
   predict blocked on the monitor, nobody reads); with the proviso the same prefix continues. *)
Theorem deadlock_without_proviso :
  BatchInst.enabled_after 1 ProvisoWitness.w_batches true ProvisoWitness.w_sigma = Some [] /\
  BatchInst.enabled_after 1 ProvisoWitness.w_batches false ProvisoWitness.w_sigma = Some [BConsume 0].
Proof.
  split; [exact (proj1 ProvisoWitness.deadlock_without_proviso_lemma)|exact ProvisoWitness.same_prefix_with_proviso_lemma].
Qed.

(* Non-vacuity: two batches, two voting threads, an interleaving in which the two jobs of the first batch
   overlap write by write; the run is complete (final). *)
Example c06_nonvacuous :
  BatchInst.run_trace 2 [[(1%N, 2); (2%N, 1)]; [(2%N, 1)]]
    [BMain; BMain; BMain; BVote 0; BVote 1; BVote 0; BVote 1; BVote 0; BMain;
     BVote 1; BConsume 0; BVote 1; BVote 0; BVote 0; BConsume 0;
     BMain; BMain; BMain; BVote 0; BVote 0; BVote 0; BConsume 1; BVote 0;
     BMain; BVote 0; BMain; BMain; BVote 1; BMain; BMain] = (30, true).
Proof. vm_compute. reflexivity. Qed.
