(* C14 - Non-maximum suppression.  Property theorems only; proofs live in Proofs/NmsProofs.v.

   Everything is stated for EVERY list of detections (any length, duplicates allowed), EVERY rank function,
   EVERY filter `passes` and EVERY coverage relation `covers hi lo` (in the implementation
   `Universal2DBox::intersection(hi, lo) as f32 / lo.area() > nms_threshold`, an oracle here: its numeric
   meaning is property C08's subject).  `nms_loop` is the model of the loops of nms.rs over the `excluded`
   index set (Model/Nms.v); `nms_cands` is the same result with the post-filter indices still attached. *)
From Coq Require Import List NArith QArith Bool Arith Permutation Sorted.
From Similari Require Import Base.Num Model.Nms Proofs.NmsProofs Proofs.NmsScalarProofs.
From SimilariGen Require Import Scalar ScalarBox ScalarNms.
Import ListNotations.
Open Scope Q_scope.

Section C14.
  Variable B : Type.
  Variable rank : B -> Q.
  Variable passes : B -> bool.
  Variable covers : B -> B -> bool.

  Local Notation nms := (nms_loop B rank passes covers).
  Local Notation nms_idx := (nms_cands B rank passes covers).
  Local Notation sorted_idx := (sorted_candidates B rank passes).
  (* a stands before c in the stable descending order: higher rank, or equal rank and earlier in the input *)
  Local Notation higher := (higher B rank).

  (* The loops over the excluded set compute the two-line recursive reading
     "keep the best, drop what it covers, recurse" on the stably sorted passing boxes. *)
  Theorem nms_loop_eq_rec : forall l, nms l = nms_rec B rank passes covers l.
  Proof. exact (nms_loop_eq_rec_lemma B rank passes covers). Qed.

  (* The result is a subsequence of the stably sorted passing boxes, which are a permutation of the passing
     boxes (so multiplicities are respected: a box given once is returned at most once). *)
  Theorem nms_subsequence_of_sorted_passing : forall l,
      subseq (nms l) (sort_desc B rank (filter passes l))
      /\ Permutation (sort_desc B rank (filter passes l)) (filter passes l).
  Proof. exact (nms_subseq_sorted_passing B rank passes covers). Qed.

  Theorem nms_subset_of_passing : forall l b, In b (nms l) -> In b l /\ passes b = true.
  Proof. exact (nms_in_passing B rank passes covers). Qed.

  (* Ordered by decreasing rank ... *)
  Theorem nms_sorted_by_rank : forall l, StronglySorted (fun a b => rank b <= rank a) (nms l).
  Proof. exact (nms_sorted_desc B rank passes covers). Qed.

  (* ... and stably: among equal ranks the input order is kept. *)
  Theorem nms_sorted_by_rank_stable : forall l, StronglySorted higher (nms_idx l).
  Proof. exact (nms_cands_stable B rank passes covers). Qed.

  (* If any box passes, the first returned box is a passing box of maximal rank (and it is the first box of
     the stable order: nms_top_is_first_of_stable_order). *)
  Theorem nms_keeps_top : forall l b,
      In b l -> passes b = true ->
      exists t tail, nms l = t :: tail /\ In t l /\ passes t = true /\
                     forall b', In b' l -> passes b' = true -> rank b' <= rank t.
  Proof. exact (nms_keeps_top_lemma B rank passes covers). Qed.

  Theorem nms_top_is_first_of_stable_order : forall l,
      hd_error (nms l) = hd_error (sort_desc B rank (filter passes l)).
  Proof. exact (nms_head B rank passes covers). Qed.

  (* No kept box is covered by a kept box that stands before it (= is higher-ranked). *)
  Theorem nms_kept_independent : forall l, ForallOrdPairs (fun a b => covers a b = false) (nms l).
  Proof. exact (nms_independent_lemma B rank passes covers). Qed.

  Theorem nms_kept_independent_idx : forall l a b,
      In a (nms_idx l) -> In b (nms_idx l) -> higher a b -> covers (snd a) (snd b) = false.
  Proof. exact (nms_cands_independent B rank passes covers). Qed.

  (* Every dropped candidate is covered by some kept, higher-ranked candidate. *)
  Theorem nms_dropped_is_covered : forall l c,
      In c (sorted_idx l) -> ~ In c (nms_idx l) ->
      exists a, In a (nms_idx l) /\ higher a c /\ covers (snd a) (snd c) = true.
  Proof. exact (nms_dropped_lemma B rank passes covers). Qed.

  (* the same without indices: a passing box is returned, or covered by a returned box of no lower rank *)
  Theorem nms_kept_or_covered : forall l b,
      In b l -> passes b = true ->
      In b (nms l) \/ exists a, In a (nms l) /\ rank b <= rank a /\ covers a b = true.
  Proof. exact (nms_kept_or_covered_lemma B rank passes covers). Qed.

  (* Completeness of the specification: the clauses above determine the output.  ANY subsequence of the stably
     sorted passing candidates in which no box is covered by a higher-ranked member and which covers (by a
     higher-ranked member) every candidate it leaves out IS the result of nms. *)
  Theorem nms_unique : forall l (k : list (cand B)),
      subseq k (sorted_idx l) ->
      (forall a b, In a k -> In b k -> higher a b -> covers (snd a) (snd b) = false) ->
      (forall c, In c (sorted_idx l) -> ~ In c k ->
                 exists a, In a k /\ higher a c /\ covers (snd a) (snd c) = true) ->
      k = nms_idx l.
  Proof. exact (nms_unique_lemma B rank passes covers). Qed.

  (* Applying it again to its own output (each kept box carries its score along: B is box-with-score)
     changes nothing.  No hypothesis is needed: the output passes the filter, is already in stable
     descending order, and contains no covered pair. *)
  Theorem nms_idempotent : forall l, nms (nms l) = nms l.
  Proof. exact (nms_idempotent_lemma B rank passes covers). Qed.
End C14.

(* ---- the same, read with the decisions TRANSLATED from src/utils/nms.rs (gen/ScalarNms.v, regenerated every run) ----
   nms_translated st thr tab = nms at passes := nms_score_filter, rank := nms_rank,
   covers hi lo := nms_covers_cmp (nms_metric lo.bbox (intersection(hi, lo))) thr; only the intersection areas `tab`
   are an oracle.  cov_ratio tab hi lo = intersection(hi, lo) / area(lo) (exact); threshold_or_min / score_or_max
   substitute f32::MIN / f32::MAX for a missing threshold / score.  These statements hold because the translated
   text means "metric > threshold, metric = intersection / area of the LOWER box" (Proofs/NmsScalarProofs.v): with
   `>=` or the other box's area in nms.rs that file no longer compiles and this cone breaks. *)

Theorem nms_translated_subset_of_passing : forall st thr tab l d,
    In d (nms_translated st thr tab l) ->
    In d l /\ threshold_or_min st < score_or_max d
    /\ 0 < Universal2DBox_height Qops (d_box d) /\ 0 < Universal2DBox_aspect Qops (d_box d).
Proof. exact nms_translated_subset_lemma. Qed.

Theorem nms_translated_sorted_by_rank : forall st thr tab l,
    StronglySorted (fun a b => det_rank b <= det_rank a) (nms_translated st thr tab l).
Proof. exact nms_translated_sorted_lemma. Qed.

(* no kept box has MORE THAN the threshold fraction of its area covered by a kept box standing before it *)
Theorem nms_translated_kept_independent : forall st thr tab l,
    ForallOrdPairs (fun hi lo => ~ thr < cov_ratio tab hi lo) (nms_translated st thr tab l).
Proof. exact nms_translated_independent_lemma. Qed.

(* every passing box is kept, or more than the threshold fraction of its area is covered by a kept box of no lower rank *)
Theorem nms_translated_dropped_is_covered : forall st thr tab l d,
    In d l -> threshold_or_min st < score_or_max d ->
    0 < Universal2DBox_height Qops (d_box d) -> 0 < Universal2DBox_aspect Qops (d_box d) ->
    In d (nms_translated st thr tab l)
    \/ exists a, In a (nms_translated st thr tab l) /\ det_rank d <= det_rank a /\ thr < cov_ratio tab a d.
Proof. exact nms_translated_dropped_lemma. Qed.

Theorem nms_translated_idempotent : forall st thr tab l,
    nms_translated st thr tab (nms_translated st thr tab l) = nms_translated st thr tab l.
Proof. exact nms_translated_idempotent_lemma. Qed.

(* Non-vacuity: five 2x2 detections (area 4); #1 (score 0.9) is the top; #0 (0.8) has 3/4 of its area under #1 and is
   dropped; #3 (0.7) has exactly 1/2 of its area under #1: not MORE than the threshold 1/2, kept; #2 fails the score
   filter (0.2 <= 0.25); #4 (0.6) is covered only by the dropped #0, which does not suppress: kept. *)
Example c14_nonvacuous :
  let dets := [ mk_det 0 0 0 None 1 2 (Some (4#5)); mk_det 1 0 0 None 1 2 (Some (9#10)); mk_det 2 0 0 None 1 2 (Some (1#5));
                mk_det 3 0 0 None 1 2 (Some (7#10)); mk_det 4 0 0 None 1 2 (Some (3#5)) ] in
  let tab : inter_tab := [ (1%N, [(0%N, 3); (3%N, 2)]); (0%N, [(1%N, 3); (4%N, 18#5)]) ] in
  run_case (Some (1#4)) (1#2) tab dets = ([1%N; 3%N; 4%N], [1%N; 3%N; 4%N]).
Proof. vm_compute. reflexivity. Qed.
