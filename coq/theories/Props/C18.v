(* C18 - Python bindings are a faithful projection of the Rust API: the table part.

   `bindings` (gen/Bindings.v) is regenerated from /repo's pyo3 layer on every run by tools/pybind2v.py; the
   checkers are in Model/Bindings.v.  Each theorem is a complete proof over that finite table: the boolean
   `forallb chk bindings` is computed by the kernel VM and lifted to `forall item, In item bindings -> ...`.

   NOT covered here (reached only by the differential run of tools/props/c18.py): pyo3's argument / result
   conversion (i64 <-> usize, Option, Vec of tuples, f64 <-> f32), the layout assumption behind
   `std::mem::transmute(Vec<(PyUniversal2DBox, ..)>)` / `Vec<PySortTrack>`, what the wrapped functions compute,
   and the bodies listed in `reviewed_other` (pinned by hash only). *)
From Coq Require Import String List QArith Bool.
From SimilariGen Require Import Bindings.
From Similari Require Import Model.Bindings.
Import ListNotations.

Lemma all_items (chk : item -> bool) : forallb chk bindings = true -> forall it, In it bindings -> chk it = true.
Proof. intros H it Hin. exact (proj1 (forallb_forall chk bindings) H it Hin). Qed.

(* every #[getter] named get_X / X returns field X of the wrapped value (or calls X / get_X on it, no arguments) *)
Theorem bindings_getters_faithful : forall it, In it bindings -> getter_ok it = true.
Proof. apply all_items. vm_compute. reflexivity. Qed.

(* every #[setter] named set_X writes its only parameter, unconverted, to field X (or calls set_X with it) *)
Theorem bindings_setters_faithful : forall it, In it bindings -> setter_ok it = true.
Proof. apply all_items. vm_compute. reflexivity. Qed.

(* every other wrapper calls the Rust function of the same name (or a reviewed rename) on the wrapped value,
   forwarding each of its parameters exactly once, in declaration order, through reviewed conversions only *)
Theorem bindings_delegates_faithful : forall it, In it bindings -> delegate_ok it = true.
Proof. apply all_items. vm_compute. reflexivity. Qed.

(* every `signature` default is a documented one and equals the Rust-side Default / constant it stands for;
   nothing has a default that is not documented *)
Theorem bindings_defaults_faithful : forall it, In it bindings -> default_ok it = true.
Proof. apply all_items. vm_compute. reflexivity. Qed.

(* ... and no documented default has been dropped *)
Theorem bindings_documented_defaults_present : forall d, In d documented_defaults -> documented_present d = true.
Proof. intros d Hin. refine (proj1 (forallb_forall documented_present documented_defaults) _ d Hin). vm_compute. reflexivity. Qed.

(* every exposed function is added to the module, every method belongs to a class that is *)
Theorem bindings_registered : forall it, In it bindings -> registered_ok it = true.
Proof. apply all_items. vm_compute. reflexivity. Qed.

Theorem bindings_classes_registered : forall c, In c classes -> class_registered c = true /\ class_name_unique c = true.
Proof.
  intros c Hin.
  refine (proj1 (andb_true_iff _ _) (proj1 (forallb_forall (fun c => class_registered c && class_name_unique c) classes) _ c Hin)).
  vm_compute. reflexivity.
Qed.

(* no two python-visible members of a class share a name *)
Theorem bindings_names_unique : forall it, In it bindings -> name_unique it = true.
Proof. apply all_items. vm_compute. reflexivity. Qed.

(* no body outside the classified fragment, and no wrapper-side precondition, unless reviewed (bodies by hash) *)
Theorem bindings_no_unreviewed_body : forall it, In it bindings -> no_other_ok it = true.
Proof. apply all_items. vm_compute. reflexivity. Qed.

(* pyo3 items in files that are not part of the crate's module tree are exactly the reviewed dead file(s) *)
Theorem bindings_dead_files_reviewed : unreachable_binding_files = reviewed_unreachable.
Proof. vm_compute. reflexivity. Qed.

(* non-vacuity: the table is not empty and the checkers do reject (a getter wired to another field, swapped
   arguments, a changed default, an unregistered class) *)
Example table_not_empty : (100 <=? length bindings)%nat = true /\ (20 <=? length classes)%nat = true.
Proof. vm_compute. split; reflexivity. Qed.

Open Scope string_scope.

Definition bad_getter : item :=
  {| i_class := "BoundingBox"; i_rust_class := "PyBoundingBox"; i_wrapped := "BoundingBox"; i_name := "width";
     i_rust_name := "get_width"; i_kind := KGetter; i_params := []; i_ret := "f32"; i_pre := [];
     i_body := FieldRead "height" []; i_where := "" |}.
Definition bad_swap : item :=
  {| i_class := "Universal2DBoxKalmanFilter"; i_rust_class := "PyUniversal2DBoxKalmanFilter";
     i_wrapped := "Universal2DBoxKalmanFilter"; i_name := "__new__"; i_rust_name := "new"; i_kind := KNew;
     i_params := [ {| p_name := "position_weight"; p_type := "f32"; p_default := DNum (1 # 20) |};
                   {| p_name := "velocity_weight"; p_type := "f32"; p_default := DNum (1 # 160) |} ];
     i_ret := "Self"; i_pre := [];
     i_body := Delegate (RStatic "Universal2DBoxKalmanFilter") "new"
                 [ {| a_label := ""; a_srcs := ["velocity_weight"]; a_convs := [] |};
                   {| a_label := ""; a_srcs := ["position_weight"]; a_convs := [] |} ] ["wrap:PyUniversal2DBoxKalmanFilter"];
     i_where := "" |}.
Definition bad_default : item :=
  {| i_class := "Point2DKalmanFilter"; i_rust_class := "PyPoint2DKalmanFilter"; i_wrapped := "Point2DKalmanFilter";
     i_name := "__new__"; i_rust_name := "new"; i_kind := KNew;
     i_params := [ {| p_name := "position_weight"; p_type := "f32"; p_default := DNum (1 # 10) |};
                   {| p_name := "velocity_weight"; p_type := "f32"; p_default := DNum (1 # 160) |} ];
     i_ret := "Self"; i_pre := []; i_body := Other ""; i_where := "" |}.
Definition bad_class : item :=
  {| i_class := "X"; i_rust_class := "PyX"; i_wrapped := "X"; i_name := "f"; i_rust_name := "f"; i_kind := KMethod;
     i_params := []; i_ret := ""; i_pre := []; i_body := Delegate RInner "f" [] []; i_where := "" |}.

Example checkers_reject :
  getter_ok bad_getter = false /\ delegate_ok bad_swap = false /\ default_ok bad_default = false
  /\ registered_ok bad_class = false /\ no_other_ok bad_default = false.
Proof. vm_compute. repeat split; reflexivity. Qed.
