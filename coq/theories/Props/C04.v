(* C04 - Scene isolation (positional SORT trackers).  Property theorems only; proofs live in
   Proofs/TrackerC04.v and Proofs/TrackerCong.v.

   [view c s st] is everything scene s can see of the tracker: its epoch and its unexpired live tracks with
   the ids erased; the run-independent name of a track is the uid of its first detection ([r_name] of a
   record, [hd (g_dets t)] of a track), so "the same grouping up to renaming of track ids" is EQUALITY of the
   id-erased outputs ([canon_out]) - two detections are in one track iff their records carry the same name. *)
From Coq Require Import List NArith ZArith QArith Bool.
From Similari Require Import Base.Num Model.Constraints Model.Tracker
     Proofs.TrackerBase Proofs.TrackerPredict Proofs.TrackerInv Proofs.TrackerC01 Proofs.TrackerC03 Proofs.TrackerGc
     Proofs.TrackerC04 Proofs.TrackerCong Proofs.TrackerSolver Proofs.TrackerVisual.
Import ListNotations.
Open Scope N_scope.

Section C04.
  Variable G : N -> list N -> option Z.
  Variable D2R : N -> list N -> Q.
  Variable solve : solver.
  Variable c : cfg.

  Notation tstep := (tstep G D2R solve c).
  Notation reach := (reach G D2R solve c).
  Notation trun := (trun G D2R solve c).

  (* a detection of one scene is never attached to a track of another scene: every record of a call for
     [scene] has that scene, its id is the id of a track of that scene that was live before the call or a
     fresh id, and the live track carrying the id afterwards is of that scene *)
  Theorem no_cross_scene_attach :
    solver_sound solve ->
    forall st scene dets recs st',
      reach st -> tstep st (Predict scene dets) = (ORecords recs, st') ->
      forall r, In r recs ->
        r_scene r = scene
        /\ ((exists t0, In t0 (live st) /\ t_id t0 = r_id r /\ t_scene t0 = scene) \/ next_id st < r_id r)
        /\ (exists t, In t (live st') /\ t_id t = r_id r /\ t_scene t = scene).
  Proof. exact (no_cross_scene_attach_lemma G D2R solve c). Qed.

  (* any operation that is not addressed to scene s - predict / skip / idle / current_epoch of another scene,
     wasted, clear_wasted, set_auto_waste, statistics - leaves the view of scene s unchanged *)
  Theorem other_ops_preserve_view :
    forall s st op, reach st -> scene_op s op = false ->
      view c s (snd (tstep st op)) = view c s st.
  Proof. intros s st op H. apply other_ops_preserve_view_lemma. exact (reach_Inv _ _ _ _ _ H). Qed.

  (* the assignment problem of a call for scene s (epoch, relevant tracks without ids, column names, weighted
     pairs offered to the solver) is a function of the view of scene s *)
  Theorem assignment_problem_isolated :
    forall s st1 st2 dets, view c s st1 = view c s st2 ->
      pc_epoch st1 s = pc_epoch st2 s
      /\ map canon (pc_rel c st1 s) = map canon (pc_rel c st2 s)
      /\ map last_uid (pc_rel c st1 s) = map last_uid (pc_rel c st2 s)
      /\ all_pairs G D2R c (pc_epoch st1 s) (pc_rel c st1 s) dets = all_pairs G D2R c (pc_epoch st2 s) (pc_rel c st2 s) dets.
  Proof. exact (assignment_problem_from_view G D2R c). Qed.

  (* the body of one predict call for scene s: its records (ids erased) and the next view are functions of the
     view of scene s - two stores that hold the scene's unexpired tracks under different ids, interleaved with other
     scenes' tracks and with expired tracks collected at different moments, behave alike *)
  Theorem predict_isolated :
    forall st1 st2 s dets, reach st1 -> reach st2 -> view c s st1 = view c s st2 ->
      canon_out (fst (tstep st1 (Predict s dets))) = canon_out (fst (tstep st2 (Predict s dets)))
      /\ view c s (snd (tstep st1 (Predict s dets))) = view c s (snd (tstep st2 (Predict s dets))).
  Proof.
    intros st1 st2 s dets H1 H2 HV.
    apply (scene_ops_from_view G D2R solve c s st1 st2 (Predict s dets) (predict_view_congruence_holds G D2R solve c)
             (reach_Inv _ _ _ _ _ H1) (reach_Inv _ _ _ _ _ H2) HV).
    cbn [scene_op]. apply N.eqb_refl.
  Qed.

  (* SCENE NON-INTERFERENCE, for every history and every scene: the id-erased outputs of the scene-s calls (grouping of
     detections into tracks by name, box tokens, custom ids, epochs, lengths, idle lists, current epochs) in the
     interleaved run equal those of the run of the scene-s calls alone, and so do the final views.  No assumption on the
     solver (beyond being a function of the assignment problem), none on the oracles. *)
  Theorem scene_noninterference :
    forall s ops, NoDup (ops_uids ops) ->
      map canon_out (sel_outs s ops (fst (trun ops))) = map canon_out (fst (trun (filter_ops s ops)))
      /\ view c s (snd (trun ops)) = view c s (snd (trun (filter_ops s ops))).
  Proof.
    intros s ops. exact (scene_noninterference_under G D2R solve c s ops (predict_view_congruence_holds G D2R solve c)).
  Qed.

  (* "up to renaming of track ids": records with equal id-erased images are related by a renaming of ids that is
     consistent with the run-independent names *)
  Theorem renaming_exists :
    forall (l1 l2 : list rec), map canon_rec l1 = map canon_rec l2 ->
      Forall2 (fun r1 r2 => r_name r1 = r_name r2 /\ r_epoch r1 = r_epoch r2 /\ r_scene r1 = r_scene r2
                            /\ r_len r1 = r_len r2 /\ r_custom r1 = r_custom r2 /\ r_obs r1 = r_obs r2) l1 l2.
  Proof.
    intros l1 l2 H. apply map_eq_Forall2 in H. eapply Forall2_impl; [|exact H].
    intros r1 r2 E. cbn beta in E. unfold canon_rec in E. inversion E. auto 10.
  Qed.
End C04.

(* THE VISUAL TRACKERS (see Props/C01.v): scene isolation for the visual step function with ANY association passing the
   interface check. *)
Theorem theorems_apply_to_visual_trackers :
  forall G D2R f c,
    let solve := given_solver f in
    (forall s ops, NoDup (ops_uids ops) ->
       map canon_out (sel_outs s ops (fst (trun_visual G D2R solve c ops)))
       = map canon_out (fst (trun_visual G D2R solve c (filter_ops s ops)))
       /\ view c s (snd (trun_visual G D2R solve c ops)) = view c s (snd (trun_visual G D2R solve c (filter_ops s ops))))
    /\ (forall st scene dets recs st',
          reach_visual G D2R solve c st -> tstep_visual G D2R solve c st (Predict scene dets) = (ORecords recs, st') ->
          forall r, In r recs ->
            r_scene r = scene
            /\ ((exists t0, In t0 (live st) /\ t_id t0 = r_id r /\ t_scene t0 = scene) \/ next_id st < r_id r)
            /\ (exists t, In t (live st') /\ t_id t = r_id r /\ t_scene t = scene))
    /\ (forall s st op, reach_visual G D2R solve c st -> scene_op s op = false ->
          view c s (snd (tstep_visual G D2R solve c st op)) = view c s st).
Proof.
  intros G D2R f c. cbn zeta. split; [|split].
  - intros s ops Hnd. rewrite !trun_visual_eq. exact (scene_noninterference G D2R _ c s ops Hnd).
  - intros st scene dets recs st' Hr H. apply reach_visual_iff in Hr. rewrite tstep_visual_eq in H.
    exact (no_cross_scene_attach G D2R _ c (given_solver_sound_lemma f) _ _ _ _ _ Hr H).
  - intros s st op Hr Hop. apply reach_visual_iff in Hr. rewrite tstep_visual_eq.
    exact (other_ops_preserve_view G D2R _ c s st op Hr Hop).
Qed.

(* Non-vacuity: two scenes in the same image region (the oracle gates every detection to every track), a crowded
   call (3 detections over 2 tracks of scene 7) interleaved with calls of scene 8 and global operations: the
   id-erased outputs of scene 7 equal those of scene 7 alone although the ids differ. *)
Definition ex4_G (cand : N) (dets : list N) : option Z :=
  match cand, last dets 0 with
  | 3, 1 => Some 900000%Z | 3, 2 => Some 500000%Z
  | 4, 1 => Some 600000%Z | 4, 2 => Some 800000%Z
  | 5, 1 => Some 700000%Z | 5, 2 => Some 700000%Z
  | _, _ => Some 650000%Z
  end.
Definition ex4_cfg : cfg := {| max_idle := 2; hist_len := 2; shards := 2; thr := 300000%Z; table := [] |}.
Definition ex4_D (u : N) : detection := {| d_uid := u; d_custom := None |}.
Definition ex4_ops : list top :=
  [Predict 8 [ex4_D 11; ex4_D 12]; Predict 7 [ex4_D 1; ex4_D 2]; Predict 8 [ex4_D 13]; Wasted; SetAutoWaste 0;
   Predict 7 [ex4_D 3; ex4_D 4; ex4_D 5]; Skip 8 5; Idle 7; CurrentEpoch 7].

Example c04_nonvacuous :
  let run ops := trun ex4_G (fun _ _ => 0%Q) best_matching ex4_cfg ops in
  map canon_out (sel_outs 7 ex4_ops (fst (run ex4_ops))) = map canon_out (fst (run (filter_ops 7 ex4_ops)))
  /\ view ex4_cfg 7 (snd (run ex4_ops)) = view ex4_cfg 7 (snd (run (filter_ops 7 ex4_ops)))
  /\ sel_outs 7 ex4_ops (fst (run ex4_ops)) <> fst (run (filter_ops 7 ex4_ops))
  /\ length (filter_ops 7 ex4_ops) = 4%nat.
Proof. vm_compute. repeat split; try reflexivity. discriminate. Qed.
