(* C07 - Kalman filters: textbook equivalence, symmetric positive-definite covariance, Mahalanobis distance,
   stationary fixed point, independent points, consistent gating.
   Property theorems only; proofs live in Proofs/Kalman*.v.

   Reading guide.  [box_filter Rops wp wv] / [point_filter Rops wp wv] are the models of
   Universal2DBoxKalmanFilter::new(wp, wv) / Point2DKalmanFilter::new(wp, wv) (Model/Kalman.v), instantiated
   with EXACT REAL arithmetic [Rops]; every theorem below is stated for an arbitrary filter F of that shape
   (any dimension, any noise model) and the two lemmas [box_side_condition] / [point_side_condition] discharge
   the side condition for the two concrete filters.  [reach F z ops] is the state of the CODE-SHAPED model -
   10x10 (4x4) matrices, the gain obtained with nalgebra's solve_lower_triangular, which reads only the lower
   triangle of S - after initiate(z) followed by the operations [ops] (Predict | Update z'), of ANY length.
   [valid_history F z ops]: the initial standard deviations are non-zero and, at every update, the
   measurement-noise standard deviations computed from the current mean are non-zero (box filter: weights
   non-zero and the current height estimate non-zero - the exact condition under which the height-scaled
   noise is non-degenerate; point filter: weights non-zero).
   What is NOT covered here: f32 rounding (observed by the correspondence, tools/props/c07.py). *)
From Coq Require Import List Arith Bool ZArith QArith Qreals Reals Permutation.
From Similari Require Import Base.Num Model.Kalman Proofs.KalmanProofs Proofs.KalmanTransfer Proofs.KalmanExact.
From SimilariGen Require Import Consts.
From SimilariGen Require ScalarCost.
From Similari Require Proofs.CostProofs.
Import ListNotations.

Section Generic.
  Variable F : kfilter Rops.
  Local Notation n := (kdim Rops F).
  Local Notation N := (2 * kdim Rops F)%nat.
  Local Open Scope R_scope.

  (* Every reachable covariance has the block form [[A,B],[B,C]] with A, B, C diagonal: each coordinate's
     (position, velocity) pair is decoupled from all others.  This is why a triangular solve is enough. *)
  Theorem cov_block_diagonal : forall z ops, valid_history F z ops ->
      forall i j, (i < N)%nat -> (j < N)%nat -> i <> j -> j <> (n + i)%nat -> i <> (n + j)%nat ->
      mgetR (cov (reach F z ops)) i j = 0.
  Proof. exact (cov_block_diagonal_lemma F). Qed.

  Theorem cov_symmetric : forall z ops, valid_history F z ops ->
      forall i j, (i < N)%nat -> (j < N)%nat ->
      mgetR (cov (reach F z ops)) i j = mgetR (cov (reach F z ops)) j i.
  Proof. exact (cov_symmetric_lemma F). Qed.

  (* positive definite, block by block: a > 0, c > 0, a c - b^2 > 0 for every coordinate ... *)
  Theorem cov_spd : forall z ops, valid_history F z ops ->
      forall k, (k < n)%nat ->
      let P := cov (reach F z ops) in
      0 < mgetR P k k /\ 0 < mgetR P (n + k) (n + k)
      /\ 0 < mgetR P k k * mgetR P (n + k) (n + k) - mgetR P k (n + k) * mgetR P k (n + k).
  Proof. exact (cov_spd_blocks_lemma F). Qed.

  (* ... and as a whole: x^T P x > 0 for every vector x that is not identically zero
     ([quad F P x] = sum_(i<2n) sum_(j<2n) x_i P_ij x_j). *)
  Theorem cov_positive_definite : forall z ops, valid_history F z ops ->
      forall x : nat -> R, (exists i, (i < N)%nat /\ x i <> 0) -> 0 < quad F (cov (reach F z ops)) x.
  Proof. exact (cov_positive_definite_lemma F). Qed.

  (* One update of a reachable state: the code (forward substitution on the lower triangle of S) computes the
     textbook update  K = P H^T S^-1, mean + K y, P - K S K^T  for EVERY true (right) inverse Si of S. *)
  Theorem update_eq_textbook : forall z ops zz Si, valid_history F z ops ->
      right_inverse F (Sm F (reach F z ops)) Si ->
      g_update Rops F (reach F z ops) zz = tb_update Rops F Si (reach F z ops) zz.
  Proof. exact (update_eq_textbook_lemma F). Qed.

  (* Whole histories: the code-shaped run equals the textbook run (the same predict; update with a true
     inverse supplied by any function [minv] that returns an inverse whenever one exists), mean and covariance. *)
  Theorem run_eq_textbook : forall (minv : Rmat -> Rmat),
      (forall S, (exists Si, right_inverse F S Si) -> right_inverse F S (minv S)) ->
      forall z ops, valid_history F z ops ->
      reach F z ops = tb_run F minv (g_initiate Rops F z) ops.
  Proof. exact (run_eq_textbook_lemma F). Qed.

  (* ... and equals, coordinate by coordinate, the scalar constant-velocity filter
     predict: m+v, v, a+2b+c+q_p, b+c, c+q_v     update: s=a+r, m+(a/s)(z-m), v+(b/s)(z-m), a-a^2/s, b-ab/s, c-b^2/s *)
  Theorem run_eq_scalar : forall z ops, valid_history F z ops ->
      reach F z ops = state_of Rops F (sreach F z ops).
  Proof. exact (run_eq_scalar_lemma F). Qed.

  (* distance() - Cholesky factor of S, forward substitution, sum of squares, with the REAL square root - is the
     squared Mahalanobis distance y^T S^-1 y of the measurement from the projected state. *)
  Theorem distance_is_mahalanobis : forall z ops zz Si, valid_history F z ops ->
      right_inverse F (Sm F (reach F z ops)) Si ->
      let y := fun i => vgetR zz i - vgetR (pmean F (reach F z ops)) i in
      g_distance Rops F sqrt (reach F z ops) zz = Rsum n (fun i => Rsum n (fun j => y i * mgetR Si i j * y j))
      /\ g_distance Rops F sqrt (reach F z ops) zz
         = Rsum n (fun i => y i * y i / mgetR (Sm F (reach F z ops)) i i).
  Proof. exact (distance_is_mahalanobis_lemma F). Qed.

  (* A stationary object: if every measurement equals the first one, every predicted and every updated mean is
     (z, 0) exactly.  No side condition (the innovation is exactly zero whatever the gain). *)
  Theorem stationary_fixed_point : forall z ops, all_meas z ops ->
      forall i, (i < N)%nat -> vgetR (mean (reach F z ops)) i = if Nat.ltb i n then vgetR z i else 0.
  Proof. exact (stationary_fixed_point_lemma F). Qed.
End Generic.

(* update() symmetrises its result, (P' + P'^T) * 0.5 (numerical hygiene for f32: see the header of
   tools/props/c07.py).  In exact arithmetic this is the identity on symmetric matrices, so it is invisible in
   all the theorems above; the result of update is symmetric whatever P' is. *)
Theorem symmetrise_identity_on_symmetric : forall k (A : Rmat),
    (forall i j, (i < k)%nat -> (j < k)%nat -> mgetR A i j = mgetR A j i) ->
    forall i j, (i < k)%nat -> (j < k)%nat -> mgetR (msym Rops k A) i j = mgetR A i j.
Proof. exact msym_id_on_symmetric. Qed.

Theorem symmetrise_is_symmetric : forall k (A : Rmat) i j, (i < k)%nat -> (j < k)%nat ->
    mgetR (msym Rops k A) i j = mgetR (msym Rops k A) j i.
Proof. exact msym_symmetric. Qed.

(* The scalar invariant behind cov_spd, for every noise value: predict keeps a block positive definite for ANY
   process noise (even zero); update keeps it exactly when the measurement noise is non-zero. *)
Theorem scalar_predict_keeps_spd : forall sp sv c, spd c -> spd (sc_predict Rops sp sv c).
Proof. exact sc_predict_spd. Qed.

Theorem scalar_update_keeps_spd : forall sr z c, (sr <> 0)%R -> spd c -> spd (sc_update Rops sr z c).
Proof. exact sc_update_spd. Qed.

(* The side condition for the two filters of the library. *)
Theorem box_side_condition : forall (wp wv : R) z ops, (wp <> 0)%R -> (wv <> 0)%R -> (vgetR z 4 <> 0)%R ->
    heights_ok wp wv (g_initiate Rops (box_filter Rops wp wv) z) ops ->
    valid_history (box_filter Rops wp wv) z ops.
Proof. exact box_valid. Qed.

Theorem point_side_condition : forall (wp wv : R) z ops, (wp <> 0)%R -> (wv <> 0)%R ->
    valid_history (point_filter Rops wp wv) z ops.
Proof. exact point_valid. Qed.

(* The theorems above are about the real-number instance of the model.  The SAME Gallina definitions over any
   arithmetic with an exact interpretation phi into R (homomorphic for 0, 1, +, -, *, division by non-zero, of_Q)
   compute the phi-preimage of the real run along every valid history ... *)
Theorem box_run_transfer_exact :
  forall (Ops : NumOps) (phi : T Ops -> R),
    phi (zero Ops) = 0%R -> phi (one Ops) = 1%R ->
    (forall a b, phi (add Ops a b) = (phi a + phi b)%R) -> (forall a b, phi (sub Ops a b) = (phi a - phi b)%R) ->
    (forall a b, phi (mul Ops a b) = (phi a * phi b)%R) ->
    (forall a b, phi b <> 0%R -> phi (div Ops a b) = (phi a / phi b)%R) ->
    (forall q, phi (of_Q Ops q) = Q2R q) ->
    forall (wp wv : T Ops) z ops,
      valid_history (box_filter Rops (phi wp) (phi wv)) (vphi Ops phi z) (map (op_phi Ops phi) ops) ->
      sphi Ops phi (g_run Ops (box_filter Ops wp wv) (g_initiate Ops (box_filter Ops wp wv) z) ops)
      = reach (box_filter Rops (phi wp) (phi wv)) (vphi Ops phi z) (map (op_phi Ops phi) ops).
Proof. exact box_run_transfer. Qed.

Theorem point_run_transfer_exact :
  forall (Ops : NumOps) (phi : T Ops -> R),
    phi (zero Ops) = 0%R -> phi (one Ops) = 1%R ->
    (forall a b, phi (add Ops a b) = (phi a + phi b)%R) -> (forall a b, phi (sub Ops a b) = (phi a - phi b)%R) ->
    (forall a b, phi (mul Ops a b) = (phi a * phi b)%R) ->
    (forall a b, phi b <> 0%R -> phi (div Ops a b) = (phi a / phi b)%R) ->
    (forall q, phi (of_Q Ops q) = Q2R q) ->
    forall (wp wv : T Ops) z ops,
      valid_history (point_filter Rops (phi wp) (phi wv)) (vphi Ops phi z) (map (op_phi Ops phi) ops) ->
      sphi Ops phi (g_run Ops (point_filter Ops wp wv) (g_initiate Ops (point_filter Ops wp wv) z) ops)
      = reach (point_filter Rops (phi wp) (phi wv)) (vphi Ops phi z) (map (op_phi Ops phi) ops).
Proof. exact point_run_transfer. Qed.

(* ... in particular the exact-rational instance [Qops] that the correspondence executes: on the rational
   covariance of the box filter itself, block diagonal, symmetric, positive definite blocks (Qeq / Qlt). *)
Theorem q_box_cov_block_diagonal : forall (wp wv : Q) z ops,
    valid_history (box_filter Rops (Q2R wp) (Q2R wv)) (q_vec_R z) (q_ops_R ops) ->
    forall i j, (i < 10)%nat -> (j < 10)%nat -> i <> j -> j <> (5 + i)%nat -> i <> (5 + j)%nat ->
    (mget (cov (q_reach_box wp wv z ops)) i j == 0)%Q.
Proof. exact q_box_block_diagonal. Qed.

Theorem q_box_cov_symmetric : forall (wp wv : Q) z ops,
    valid_history (box_filter Rops (Q2R wp) (Q2R wv)) (q_vec_R z) (q_ops_R ops) ->
    forall i j, (i < 10)%nat -> (j < 10)%nat ->
    (mget (cov (q_reach_box wp wv z ops)) i j == mget (cov (q_reach_box wp wv z ops)) j i)%Q.
Proof. exact q_box_symmetric. Qed.

Theorem q_box_cov_spd : forall (wp wv : Q) z ops,
    valid_history (box_filter Rops (Q2R wp) (Q2R wv)) (q_vec_R z) (q_ops_R ops) ->
    forall k, (k < 5)%nat ->
    let P := cov (q_reach_box wp wv z ops) in
    (0 < mget P k k /\ 0 < mget P (5 + k) (5 + k)
     /\ 0 < mget P k k * mget P (5 + k) (5 + k) - mget P k (5 + k) * mget P k (5 + k))%Q.
Proof. exact q_box_spd. Qed.

(* The vector filter treats its points independently (any arithmetic): point k of a vector history is the
   point filter run on the k-th components; the run commutes with every re-indexing of the points, and a
   re-indexing by a permutation of the positions is a permutation. *)
Theorem vec_filter_pointwise : forall (Ops : NumOps) (wp wv : T Ops) ops sts k d,
    vops_wf Ops (length sts) ops -> (k < length sts)%nat ->
    length (vec_run Ops wp wv sts ops) = length sts /\
    nth k (vec_run Ops wp wv sts ops) d
    = g_run Ops (point_filter Ops wp wv) (nth k sts d) (map (vop_at Ops k) ops).
Proof. exact vec_run_pointwise. Qed.

(* ... the same for distance(): element k is the point filter's distance computed from element k's OWN state
   (own projected covariance, own Cholesky factor), whatever the other elements of the vector are - in particular
   when the elements have different histories - and for the cost conversion. *)
Theorem vec_distance_pointwise : forall (Ops : NumOps) (wp wv : T Ops) (sqrtT : T Ops -> T Ops) sts pts k d dz,
    length pts = length sts -> (k < length sts)%nat ->
    length (vec_distance Ops sqrtT wp wv sts pts) = length sts /\
    nth k (vec_distance Ops sqrtT wp wv sts pts) dz
    = g_distance Ops (point_filter Ops wp wv) sqrtT (nth k sts d) (nth k pts []).
Proof. exact vec_distance_pointwise_lemma. Qed.

Theorem vec_cost_pointwise : forall (Ops : NumOps) ds inverted k dz, (k < length ds)%nat ->
    nth k (vec_calculate_cost Ops ds inverted) dz = point_calculate_cost Ops (nth k ds dz) inverted.
Proof. exact vec_cost_pointwise_lemma. Qed.

Theorem vec_filter_equivariant : forall (Ops : NumOps) (wp wv : T Ops) (d : kstate Ops) p sts ops,
    vops_wf Ops (length sts) ops -> (forall i, In i p -> (i < length sts)%nat) ->
    vec_run Ops wp wv (reindex d p sts) (map (reindex_op Ops p) ops)
    = reindex d p (vec_run Ops wp wv sts ops).
Proof. exact vec_run_equivariant. Qed.

Theorem reindex_by_permutation : forall (A : Type) (d : A) p l,
    Permutation p (seq O (length l)) -> Permutation (reindex d p l) l.
Proof. exact reindex_permutation. Qed.

(* The direct and the inverted cost conversion gate at the same distance, for EVERY distance d (exact
   rationals; hand model of the two calculate_cost functions, constants from the regenerated Consts.v). *)
Theorem cost_gate_consistent_box : forall d : Q, (0 <= d)%Q ->
    (box_calculate_cost Qops d true == CHI2_UPPER_BOUND - box_calculate_cost Qops d false)%Q.
Proof. intros d _. exact (cost_with_gate_consistent _ d). Qed.

Theorem cost_gate_consistent_point : forall d : Q, (0 <= d)%Q ->
    (point_calculate_cost Qops d true == CHI2_UPPER_BOUND - point_calculate_cost Qops d false)%Q.
Proof. intros d _. exact (cost_with_gate_consistent _ d). Qed.

(* The same two statements about the TRANSLATED bodies of Universal2DBoxKalmanFilter::calculate_cost and
   Point2DKalmanFilter::calculate_cost (gen/ScalarCost.v, regenerated from the Rust source on every run; proofs in
   Proofs/CostProofs.v), and the hand model used above is, by computation, the translated function. *)
Theorem cost_gate_consistent_box_translated : forall d : Q, (0 <= d)%Q ->
    (ScalarCost.box_calculate_cost Qops d true == CHI2_UPPER_BOUND - ScalarCost.box_calculate_cost Qops d false)%Q.
Proof. exact CostProofs.cost_gate_consistent_box. Qed.

Theorem cost_gate_consistent_point_translated : forall d : Q, (0 <= d)%Q ->
    (ScalarCost.point_calculate_cost Qops d true == CHI2_UPPER_BOUND - ScalarCost.point_calculate_cost Qops d false)%Q.
Proof. exact CostProofs.cost_gate_consistent_point. Qed.

Theorem cost_model_is_translation : forall (d : Q) (inverted : bool),
    Kalman.box_calculate_cost Qops d inverted = ScalarCost.box_calculate_cost Qops d inverted
    /\ Kalman.point_calculate_cost Qops d inverted = ScalarCost.point_calculate_cost Qops d inverted.
Proof. exact cost_hand_model_is_translation. Qed.

Theorem cost_same_gate_box : forall d : Q, (0 <= d)%Q -> (d < CHI2_UPPER_BOUND)%Q ->
    (box_calculate_cost Qops d false == CHI2_UPPER_BOUND <-> box_calculate_cost Qops d true == 0)%Q.
Proof. intros d. exact (cost_same_gate _ d). Qed.

Theorem cost_same_gate_point : forall d : Q, (0 <= d)%Q -> (d < CHI2_UPPER_BOUND)%Q ->
    (point_calculate_cost Qops d false == CHI2_UPPER_BOUND <-> point_calculate_cost Qops d true == 0)%Q.
Proof. intros d. exact (cost_same_gate _ d). Qed.

(* Non-vacuity (exact rationals, the repository's own unit test `step`): the code-shaped model reproduces the
   expected prediction 2437/242 = 10.0702..., agrees with the scalar model, and the gates are where they
   should be (d = 7 lies between CHI2INV95[1] = 5.9915 and CHI2INV95[4] = 11.07). *)
Example c07_nonvacuous :
  let Fq := box_filter Qops (1 # 20) (1 # 160) in
  let z0 := [-9; 9 # 2; 0; 2 # 5; 5]%Q in
  let z1 := [35 # 4; 1047 # 20; 0; 3016983 # 20000000; 1001 # 10]%Q in
  let ops := [@Predict Qops; @Update Qops z1; @Predict Qops] in
  vget (mean (g_run Qops Fq (g_initiate Qops Fq z0) ops)) 0 = (2437 # 242)%Q
  /\ q_scalar_agrees Fq z0 [None; Some z1; None] = true
  /\ point_calculate_cost Qops 7 false = 100%Q /\ point_calculate_cost Qops 7 true = 0%Q
  /\ box_calculate_cost Qops 7 false = 7%Q /\ box_calculate_cost Qops 7 true = 93%Q.
Proof. vm_compute. repeat split; reflexivity. Qed.
