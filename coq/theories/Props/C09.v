(* C09 - The track store is a faithful map from track id to track, and merge failures are reported.
   Property theorems only; proofs live in Proofs/StoreProofs.v.

   [sstep]/[srun] is the model of TrackStore over n shards (shard of an id = id mod n), [mstep]/[mrun] the
   specification: the same operations over ONE finite map (association list).  All statements hold for all
   callbacks (apply, attribute merge, optimize, baked, lookup), all worlds, every operation sequence and every
   shard count n >= 1; [wfn n st] (shard placement, unique keys, key = track id, n shards) holds in every state
   reachable from the empty store (shard_placement / store_refines_map_from_empty). *)
From Coq Require Import List NArith Bool Permutation.
From Similari Require Import Model.Track Model.Store Proofs.TrackProofs Proofs.StoreProofs.
Import ListNotations.

Section C09.
  Variables TA UPD OA FT MS W LQ : Type.
  Notation track := (track TA OA FT MS).
  Notation observation := (observation OA FT).
  Notation obsdb := (obsdb OA FT).
  Notation sop := (sop TA UPD OA FT MS LQ).

  Variable cb_apply : W -> UPD -> TA -> W * bool * TA.
  Variable cb_merge : W -> TA -> TA -> W * bool * TA.
  Variable cb_optimize :
    W -> MS -> N -> list N -> TA -> list observation -> nat -> bool -> W * bool * MS * TA * list observation.
  Variable cb_baked : TA -> obsdb -> bstatus.
  Variable cb_lookup : LQ -> TA -> obsdb -> list N -> bool.
  Variable dflt_metric : MS.
  Variable dflt_attrs : TA.

  Notation find := (find TA OA FT MS).
  Notation get_shard := (get_shard TA OA FT MS).
  Notation empty_store := (empty_store TA OA FT MS).
  Notation abs := (abs TA OA FT MS).
  Notation wfn := (wfn TA OA FT MS).
  Notation baked := (baked TA OA FT MS cb_baked).
  Notation sstep := (sstep TA UPD OA FT MS W LQ cb_apply cb_merge cb_optimize cb_baked cb_lookup dflt_metric dflt_attrs).
  Notation srun := (srun TA UPD OA FT MS W LQ cb_apply cb_merge cb_optimize cb_baked cb_lookup dflt_metric dflt_attrs).
  Notation mrun := (mrun TA UPD OA FT MS W LQ cb_apply cb_merge cb_optimize cb_baked cb_lookup dflt_metric dflt_attrs).
  Notation merge := (merge cb_merge cb_optimize).
  Notation build := (build cb_apply cb_optimize).
  Notation res_equiv := (res_equiv TA OA FT MS).
  Notation ARGS lemma := (lemma TA UPD OA FT MS W LQ cb_apply cb_merge cb_optimize cb_baked cb_lookup dflt_metric dflt_attrs).

  (* For every operation sequence and every shard count the sharded store answers as the finite map does
     (list-valued answers of lookup / find_usable as multisets, shard_stats by its sum), ends in a state that
     holds the same map, and the invariant is kept. *)
  Theorem store_refines_map : forall ops n w st w1 out1 st' w2 out2 m',
      wfn n st -> srun w st ops = (w1, out1, st') -> mrun w (abs st) ops = (w2, out2, m') ->
      w1 = w2 /\
      Forall2 (fun a b => res_equiv (fst a) (fst b) /\ snd a = snd b) out1 out2 /\
      (forall id, find st' id = alookup id m') /\ wfn n st'.
  Proof. exact (ARGS store_refines_map_lemma). Qed.

  Theorem store_refines_map_from_empty : forall ops n w w1 out1 st' w2 out2 m',
      (0 < n)%nat -> srun w (empty_store n) ops = (w1, out1, st') -> mrun w [] ops = (w2, out2, m') ->
      w1 = w2 /\
      Forall2 (fun a b => res_equiv (fst a) (fst b) /\ snd a = snd b) out1 out2 /\
      (forall id, find st' id = alookup id m') /\ wfn n st'.
  Proof. exact (ARGS store_refines_map_from_empty_lemma). Qed.

  (* A stored track sits in the shard determined by its id, under its own id, and is found there; keys are
     unique per shard (hence, by placement, in the whole store). *)
  Theorem shard_placement : forall ops n w w' out st',
      (0 < n)%nat -> srun w (empty_store n) ops = (w', out, st') ->
      length st' = n /\
      (forall k id t, In (id, t) (get_shard st' k) ->
                      k = N.to_nat (id mod N.of_nat n) /\ tid t = id /\ find st' id = Some t) /\
      (forall k, NoDup (akeys (get_shard st' k))).
  Proof. exact (ARGS shard_placement_lemma). Qed.

  Theorem add_track_dup_rejected : forall n w st t t0,
      wfn n st -> find st (tid t) = Some t0 ->
      sstep w st (AddTrack t) = (w, RId (Err (EDuplicate (tid t))), st, 0%nat).
  Proof. exact (ARGS add_track_dup_rejected_lemma). Qed.

  Theorem add_track_found : forall n w st t,
      wfn n st -> find st (tid t) = None ->
      exists st', sstep w st (AddTrack t) = (w, RId (Ok (tid t)), st', 0%nat) /\
                  (forall id, find st' id = if (id =? tid t)%N then Some t else find st id) /\
                  In (tid t, t) (get_shard st' (N.to_nat (tid t mod N.of_nat n))).
  Proof. exact (ARGS add_track_found_lemma). Qed.

  (* ... until fetched or cleared (or removed as the source of a successful owned merge that asked for it) *)
  Theorem found_until_fetched_or_cleared : forall n w st o w' r st' k id,
      wfn n st -> sstep w st o = (w', r, st', k) -> find st id <> None ->
      find st' id <> None \/
      (exists ids, o = Fetch ids /\ In id ids) \/
      o = Clear \/
      (exists dst cls mh src, o = MergeOwned dst id cls true mh /\ r = ROwned (Ok (Some src))).
  Proof. exact (ARGS presence_lemma). Qed.

  Theorem fetch_exact : forall n w st ids w' r st' k,
      wfn n st -> sstep w st (Fetch ids) = (w', r, st', k) ->
      exists ts, r = RTracks ts /\ w' = w /\ k = 0%nat /\
                 (forall t, In t ts <-> exists id, In id ids /\ find st id = Some t) /\
                 NoDup (map tid ts) /\
                 (forall id, find st' id = if existsb (N.eqb id) ids then None else find st id).
  Proof. exact (ARGS fetch_exact_lemma). Qed.

  Theorem lookup_exact : forall n w st q w' r st' k,
      wfn n st -> sstep w st (Lookup q) = (w', r, st', k) ->
      exists l, r = RStatus l /\ st' = st /\ w' = w /\ k = 0%nat /\
                (forall id s, In (id, s) l <->
                              exists t, find st id = Some t /\ track_lookup cb_lookup q t = true /\ s = baked t) /\
                NoDup (map fst l).
  Proof. exact (ARGS lookup_exact_lemma). Qed.

  Theorem find_usable_exact : forall n w st w' r st' k,
      wfn n st -> sstep w st FindUsable = (w', r, st', k) ->
      exists l, r = RStatus l /\ st' = st /\ w' = w /\ k = 0%nat /\
                (forall id s, In (id, s) l <-> exists t, find st id = Some t /\ s = baked t /\ s <> BPending) /\
                NoDup (map fst l).
  Proof. exact (ARGS find_usable_exact_lemma). Qed.

  (* one count per shard; the counts sum to the number of stored tracks *)
  Theorem stats_sum : forall n w st w' r st' k,
      wfn n st -> sstep w st Stats = (w', r, st', k) ->
      exists l, r = RStats l /\ st' = st /\ length l = n /\
                fold_right N.add 0%N l = N.of_nat (length (abs st)) /\
                (forall id, In id (akeys (abs st)) <-> find st id <> None) /\ NoDup (akeys (abs st)).
  Proof. exact (ARGS stats_sum_lemma). Qed.

  (* add on a missing id = build the track with the store's builder, then add_track (also when building fails) *)
  Theorem add_creates_like_builder : forall n w st id cls fa f u,
      wfn n st -> find st id = None ->
      sstep w st (Add id cls fa f u) =
      let '(w1, r, k) := build w id dflt_metric dflt_attrs [(cls, fa, f, u)] in
      match r with
      | Ok t => let '(_, _, st1, _) := sstep w1 st (AddTrack t) in (w1, RUnit (Ok tt), st1, k)
      | Err e => (w1, RUnit (Err e), st, k)
      end.
  Proof. exact (ARGS add_creates_like_builder_lemma). Qed.

  (* merge_external / merge_external_noblock + get: destination missing, same track, or an error from
     Track::merge are reported as Err (never Ok), and then the store is unchanged; Ok only with Track::merge's Ok,
     and then only the destination changed *)
  Theorem merge_reports_failure : forall n w st dst src cls mh (noblock : bool) w' r st' k,
      wfn n st ->
      sstep w st (if noblock then MergeExtNoblock dst src cls mh else MergeExt dst src cls mh : sop) = (w', r, st', k) ->
      exists ru, r = RUnit ru /\
      match find st dst with
      | None => ru = Err (ENotFound dst) /\ st' = st /\ k = 0%nat /\ w' = w
      | Some d =>
          if (dst =? tid src)%N then ru = Err (ESameTrack dst) /\ st' = st /\ k = 0%nat /\ w' = w
          else exists d', merge w d src (eff_classes TA OA FT MS src (opt_classes cls)) mh = (w', ru, d', k) /\
                          match ru with
                          | Err _ => (forall id, find st' id = find st id) /\ k = 0%nat
                          | Ok _ => k = 1%nat /\
                                    forall id, find st' id = if (id =? dst)%N then Some d' else find st id
                          end
      end.
  Proof. exact (ARGS merge_external_spec_lemma). Qed.

  (* merge_owned: only the destination changes; the source is removed iff asked AND successful; source missing,
     destination missing and same track are errors; any error leaves the whole store as it was *)
  Theorem merge_changes_only_dest : forall n w st dst src_id cls rm mh w' r st' k,
      wfn n st -> sstep w st (MergeOwned dst src_id cls rm mh) = (w', r, st', k) ->
      exists ro, r = ROwned ro /\
      (forall id, id <> dst -> id <> src_id -> find st' id = find st id) /\
      (find st' src_id = if rm && is_ok ro then None else find st src_id) /\
      (is_ok ro = false -> (forall id, find st' id = find st id) /\ k = 0%nat) /\
      (is_ok ro = true -> k = 1%nat /\ dst <> src_id /\ find st src_id <> None /\ find st dst <> None /\
                          find st' dst <> None) /\
      (find st src_id = None -> ro = Err (ENotFound src_id)) /\
      (find st src_id <> None -> (find st dst = None \/ dst = src_id) -> ro = Err (ENotFound dst)).
  Proof. exact (ARGS merge_owned_spec_lemma). Qed.
End C09.

(* Non-vacuity on the scripted algebra: two shards; duplicate rejected; merge to a missing destination is an
   error and the source of the owned merge is still stored; a successful owned merge removes the source. *)
Import Alg.
Open Scope N_scope.

Definition c09_scenario :=
  run_store 2 (plan [] [] [])
            [XBuildAdd 1 [(1, Some 3, None, Some (2, false))];
             XBuildAdd 1 [];
             XOp (Add 2 1 (Some 4) None None);
             XOp (MergeOwned 9 2 None true true);
             XOp Stats;
             XOp (MergeOwned 1 2 None true true);
             XOp Stats].

Example c09_nonvacuous :
  map (fun s => let '(tag, code, ids, _, _, _, _) := s in (tag, code, ids)) c09_scenario
  = [(1, (0, 0), [1]); (1, (4, 1), []); (2, (0, 0), []); (4, (5, 9), []); (6, (0, 0), [1; 1]);
     (4, (0, 0), []); (6, (0, 0), [0; 1])].
Proof. vm_compute. reflexivity. Qed.
