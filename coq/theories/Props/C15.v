(* C15 - property theorems only; proofs live in Proofs/OwnAreaProofs.v. *)
From Coq Require Import List Bool ZArith QArith.
From Similari Require Import Base.Num Model.Geom Model.OwnArea Proofs.OwnAreaProofs.
Import ListNotations.

Theorem one_share_per_box : forall bs, length (own_shares_grid bs) = length bs.
Proof. exact own_shares_grid_length. Qed.
