(* C15 - Exclusively-owned area share.
   Property theorems only; proofs live in Proofs/OwnAreaProofs.v.  Model: Model/OwnArea.v.

   The laws are proved of the exact specification [own_share_grid] (integer axis-aligned boxes, coordinate
   compression, elementary cells), for ALL finite sets of integer boxes.

   grid_eq_ie_axis_aligned and own_shares_ie_eq_grid_axis_aligned (below) close the former gap between the two
   specifications: the whole vector own_shares_ie computes (position-based too_far pre-filter, clips, shoelace,
   translated normalisation) equals entry by entry the normalised grid shares.  In detail: on integer axis-aligned
   boxes the inclusion-exclusion specification [uncovered] at Qops - iterated Sutherland-Hodgman clips of the boxes'
   rectangles + shoelace, the very function own_shares_ie is built from - IS the grid specification.

   PARTIAL (own_share_partial), what really remains:
     - the laws of the inclusion-exclusion specification for ROTATED boxes rest on C08's unproved area link
       (clip_area_eq_ref);
     - that geo's sweep-line BooleanOps::difference equals either specification and never fails is not a statement
       about any Gallina term.
   These are carried by the correspondence only (tools/props/c15.py). *)
From Coq Require Import List Bool ZArith QArith Permutation Lia.
From Similari Require Import Base.Num Model.Geom Model.OwnArea Proofs.OwnAreaProofs Proofs.OwnAreaIE.
From SimilariGen Require Import Scalar ScalarBox ScalarOwnArea.
Import ListNotations.
Open Scope Q_scope.

Theorem share_in_unit_interval :
  forall b others, ibox_ok b -> 0 <= own_share_grid b others <= 1.
Proof. exact share_in_unit_interval_lemma. Qed.

(* a box whose interior meets no other box owns all of its area *)
Theorem share_one_if_disjoint :
  forall b others, ibox_ok b -> (forall o, In o others -> idisjoint b o) -> own_share_grid b others == 1.
Proof. exact share_one_if_disjoint_lemma. Qed.

(* a box every unit cell of which lies in some other box (covered by the UNION of the others) owns nothing *)
Theorem share_zero_if_covered :
  forall b others, icovered b others -> own_share_grid b others == 0.
Proof. exact share_zero_if_covered_lemma. Qed.

(* the order in which the other boxes are given does not matter *)
Theorem share_permutation_invariant :
  forall b others others', Permutation others others' -> own_share_grid b others = own_share_grid b others'.
Proof. exact share_permutation_invariant_lemma. Qed.

(* the share is 1 - |b /\ union of the others| / |b|, the union's area being counted cell-wise *)
Theorem share_is_uncovered_measure :
  forall b others, ibox_ok b ->
    own_share_grid b others == 1 - Qmake (covered_area_grid b others) (Z.to_pos (ibox_area b)).
Proof. exact share_is_uncovered_measure_lemma. Qed.

(* the cells inside a box add up to the area of the box (what makes the cell-wise measure a measure) *)
Theorem grid_cells_tile_the_box :
  forall bs b, In b bs -> ibox_ok b -> cells_sum (xs_of bs) (ys_of bs) (cell_in b) = ibox_area b.
Proof. exact cells_sum_box_area. Qed.

(* one share per box; the normalisation own / (area + EPS) clamped at 1 stays in [0,1] *)
Theorem one_share_per_box : forall bs, length (own_shares_grid bs) = length bs.
Proof. exact own_shares_grid_length. Qed.

Theorem share_normalise_in_unit_interval :
  forall own area : Q, 0 <= own -> 0 <= area -> 0 <= share_normalise Qops own area <= 1.
Proof. exact share_normalise_range. Qed.

(* the grid specification is the inclusion-exclusion recursion  U(r, o::os) = U(r, os) - U(r /\ o, os),
   U(r, []) = area r,  on integer rectangles: for ANY boxes (an empty box has area 0 on both sides) *)
Theorem grid_eq_ie_rect :
  forall b others, own_area_grid b others = uncovered_rect b others.
Proof. exact own_area_grid_eq_rect. Qed.

(* ... and the inclusion-exclusion specification used for rotated boxes ([uncovered] at Qops: iterated
   Sutherland-Hodgman clips of the rectangles' vertex lists, shoelace areas), evaluated on the rectangles of integer
   axis-aligned boxes, IS the grid specification *)
Theorem grid_eq_ie_axis_aligned :
  forall b others, ibox_ok b -> Forall ibox_ok others ->
    own_share_grid b others ==
    uncovered Qops (rect_vertices Qops (qbox_of_ibox b)) (map (fun o => rect_vertices Qops (qbox_of_ibox o)) others)
    / box_area Qops (qbox_of_ibox b).
Proof. exact grid_eq_ie_axis_aligned_lemma. Qed.

(* the too_far pre-filter of the code changes nothing: dropping any boxes that are too_far from b (in either argument
   order) before the inclusion-exclusion leaves the grid share (too_far boxes have an empty integer intersection, by
   C08's too_far_sound and closed form) *)
Theorem grid_eq_ie_prefiltered :
  forall b others (keep : ibox -> bool), ibox_ok b -> Forall ibox_ok others ->
    (forall o, In o others -> keep o = false ->
       too_far Qops (qbox_of_ibox b) (qbox_of_ibox o) = true \/ too_far Qops (qbox_of_ibox o) (qbox_of_ibox b) = true) ->
    own_share_grid b others ==
    uncovered Qops (rect_vertices Qops (qbox_of_ibox b))
              (map (fun o => rect_vertices Qops (qbox_of_ibox o)) (filter keep others))
    / box_area Qops (qbox_of_ibox b).
Proof. exact grid_eq_ie_prefiltered_lemma. Qed.

(* THE WHOLE VECTOR: for every list of valid integer axis-aligned boxes, what the inclusion-exclusion specification
   own_shares_ie computes on their records (near_others = position-based too_far pre-filter, iterated clips, shoelace,
   the translated normalisation own / (area + EPS) clamped at 1) equals, entry by entry up to ==, the normalised grid
   share of each box against all the OTHER boxes ([others_at i bs] = bs without its i-th element) *)
Theorem own_shares_ie_eq_grid_axis_aligned :
  forall bs : list ibox, Forall ibox_ok bs ->
    Forall2 Qeq
      (own_shares_ie Qops (map qbox_of_ibox bs))
      (map (fun ib => share_normalise Qops (inject_Z (own_area_grid (snd ib) (others_at (fst ib) bs)))
                                      (inject_Z (ibox_area (snd ib))))
           (combine (seq 0 (length bs)) bs)).
Proof. exact own_shares_ie_eq_grid_lemma. Qed.

(* [others_at] is exactly the list the grid specification pairs each box with (own_shares_grid: everything before the
   box ++ everything after it) *)
Theorem own_shares_grid_pairs_each_box_with_the_others :
  forall bs, own_shares_grid bs =
             map (fun ib => own_share_grid (snd ib) (others_at (fst ib) bs)) (combine (seq 0 (length bs)) bs).
Proof. exact own_shares_grid_others. Qed.

(* the tie to the Rust source (gen/ScalarOwnArea.v, regenerated on every run): the normalisation the laws above are
   stated on is the translated  own_share_clamp (own_share_raw b area)  - equal by computation, so a changed formula
   or comparison in exclusively_owned_areas_normalized_shares breaks this Qed - and own_shares_ie calls it *)
Theorem share_normalise_is_translation :
  forall (u : Universal2DBox Qops) (own : Q),
    own_share_clamp Qops (own_share_raw Qops u own) = share_normalise Qops own (ubox_area Qops u).
Proof. exact share_normalise_is_translation_lemma. Qed.

Theorem own_shares_ie_normalises_by_translation :
  forall boxes : list qbox,
    own_shares_ie Qops boxes =
    map (fun ib => share_normalise Qops (own_area_ie Qops boxes (fst ib) (snd ib)) (ubox_area Qops (to_ubox Qops (snd ib))))
        (combine (seq 0 (length boxes)) boxes).
Proof. exact own_shares_ie_uses_translation. Qed.

(* Non-vacuity: the unit test of bbox_own_areas.rs (three 10 x 10 boxes on a diagonal) under both specifications *)
Example c15_nonvacuous :
  own_shares_grid [mkibox 0 0 10 10; mkibox 5 5 15 15; mkibox 10 10 20 20] = [75 # 100; 50 # 100; 75 # 100] /\
  own_shares_ie Qops [mkbox (num:=Qops) 5 5 1 0 1 10; mkbox (num:=Qops) 10 10 1 0 1 10; mkbox (num:=Qops) 15 15 1 0 1 10]
    = [7500000 # 10000001; 5000000 # 10000001; 7500000 # 10000001] /\
  icovered (mkibox 1 1 3 3) [mkibox 0 0 2 4; mkibox 2 0 4 4] /\
  idisjoint (mkibox 0 0 1 1) (mkibox 1 0 2 1).
Proof.
  split; [vm_compute; reflexivity|]. split; [vm_compute; reflexivity|]. split.
  - intros i j Hi Hj. cbn [ix0 ix1 iy0 iy1] in *.
    destruct (Z_lt_le_dec i 2).
    + exists (mkibox 0 0 2 4). cbn. split; [now left | lia].
    + exists (mkibox 2 0 4 4). cbn. split; [right; now left | lia].
  - unfold idisjoint. cbn. lia.
Qed.
