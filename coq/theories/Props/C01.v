(* C01 - Tracker output contract (positional SORT trackers: Sort, and BatchSort used synchronously).
   Property theorems only; proofs live in Proofs/TrackerC01.v (and TrackerPredict.v, TrackerInv.v).

   All theorems are for ALL metric oracles G / D2R, ALL configurations c, ALL assignment procedures
   [solve] that satisfy the interface [solver_sound] (result per candidate in input order, only pairs that
   were offered, no track given twice - what SortVoting::winners guarantees, C02), and ALL reachable states:
   [reach] is the closure of the initial state under [tstep] for arbitrary operations whose detections carry
   fresh uids ([ok_op]); [trun_reaches] ties it to the fold over an operation list. *)
From Coq Require Import List NArith ZArith QArith Bool.
From Similari Require Import Base.Num Model.Constraints Model.Tracker
     Proofs.TrackerBase Proofs.TrackerPredict Proofs.TrackerInv Proofs.TrackerC01 Proofs.TrackerSolver
     Model.Assign Proofs.AssignProofs Proofs.TrackerAssign Proofs.TrackerVisual.
Import ListNotations.
Open Scope N_scope.

Section C01.
  Variable G : N -> list N -> option Z.
  Variable D2R : N -> list N -> Q.
  Variable solve : solver.
  Variable c : cfg.
  Hypothesis Hsound : solver_sound solve.

  Notation tstep := (tstep G D2R solve c).
  Notation reach := (reach G D2R solve c).

  (* every state produced by folding tstep over an operation list with pairwise distinct detection uids
     is reachable: the theorems below therefore hold after every history *)
  Theorem trun_reaches :
    forall ops, NoDup (ops_uids ops) -> reach (snd (trun G D2R solve c ops)).
  Proof. exact (trun_reach G D2R solve c). Qed.

  (* exactly one record per detection *)
  Theorem predict_one_record_per_detection :
    forall st scene dets recs st',
      reach st -> tstep st (Predict scene dets) = (ORecords recs, st') -> length recs = length dets.
  Proof. exact (predict_one_record_per_detection_lemma G D2R solve c Hsound). Qed.

  (* in submission order, echoing the detection's observed box (token), custom object id and the scene *)
  Theorem predict_records_in_order :
    forall st scene dets recs st',
      reach st -> tstep st (Predict scene dets) = (ORecords recs, st') ->
      forall i d r, nth_error dets i = Some d -> nth_error recs i = Some r ->
        r_obs r = d_uid d /\ r_custom r = d_custom d /\ r_scene r = scene.
  Proof. exact (predict_records_in_order_lemma G D2R solve c Hsound). Qed.

  (* the record carries the scene's current epoch (= old + 1) and the length of its track: the live track
     with the record's id has that length, the length is the number of detections attached to it, and the
     last one attached is this detection *)
  Theorem predict_record_epoch_len :
    forall st scene dets recs st',
      reach st -> tstep st (Predict scene dets) = (ORecords recs, st') ->
      epoch_of (epochs st') scene = epoch_of (epochs st) scene + 1 /\
      forall i d r, nth_error dets i = Some d -> nth_error recs i = Some r ->
        r_epoch r = epoch_of (epochs st') scene /\
        exists t, In t (live st') /\ t_id t = r_id r /\ r_len r = t_len t
                  /\ t_len t = N.of_nat (length (g_dets t)) /\ last (g_dets t) 0 = d_uid d.
  Proof. exact (predict_record_epoch_len_lemma G D2R solve c Hsound). Qed.

  (* within one call no two detections receive the same track id *)
  Theorem predict_ids_nodup :
    forall st scene dets recs st',
      reach st -> ok_op st (Predict scene dets) ->
      tstep st (Predict scene dets) = (ORecords recs, st') -> NoDup (map r_id recs).
  Proof. exact (predict_ids_nodup_lemma G D2R solve c Hsound). Qed.

  (* the id given to a newly started track has never been issued before:
     (a) every id that exists anywhere (live, wasted store, handed out, cleared) is at most the counter,
     (b) the counter never decreases,
     (c) a record's id either is the id of a track of the same scene that was live before the call, or lies
         strictly above the counter before the call (and at most the counter after it),
     (d) the new ids of one call increase in submission order. *)
  Theorem ids_bounded :
    forall st t, reach st -> In t (all_tracks st) -> 1 <= t_id t <= next_id st.
  Proof. exact (ids_bounded_lemma G D2R solve c). Qed.

  Theorem next_id_monotone :
    forall st op, next_id st <= next_id (snd (tstep st op)).
  Proof. exact (next_id_mono_lemma G D2R solve c). Qed.

  Theorem new_ids_fresh :
    forall st scene dets recs st',
      reach st -> tstep st (Predict scene dets) = (ORecords recs, st') ->
      forall r, In r recs ->
        (exists t0, In t0 (live st) /\ t_id t0 = r_id r /\ t_scene t0 = scene) \/ next_id st < r_id r <= next_id st'.
  Proof. exact (new_ids_fresh_lemma G D2R solve c Hsound). Qed.

  Theorem new_ids_increasing :
    forall st scene dets recs st',
      reach st -> tstep st (Predict scene dets) = (ORecords recs, st') ->
      ForallOrdPairs (fun a b => next_id st < r_id a -> next_id st < r_id b -> r_id a < r_id b) recs.
  Proof. exact (new_ids_increasing_lemma G D2R solve c Hsound). Qed.
End C01.

(* The interface is inhabited: the executable default (exhaustive maximum-weight gated matching) satisfies it. *)
Theorem default_solver_sound : solver_sound best_matching.
Proof. exact best_matching_sound. Qed.

(* LINK to the verified model of SortVoting::winners (C02: Model/Assign.v).  [assign_solver km] runs the REAL padded-matrix
   construction, the oracle km (kuhn_munkres) and the decode loop on the call's pairs (candidate i |-> id 2i+1, track column
   j |-> id 2j+2: non-zero and disjoint, as the random candidate ids and the counter ids of the code are).  If km returns an
   optimal assignment of every matrix built by pad_matrix - the hypothesis of C02's sort_voting_is_gated_maximum - the
   solver satisfies the interface, hence every theorem above holds for the tracker running the real voting. *)
Theorem assign_solver_sound :
  forall km : matrix -> list nat, km_optimal km -> solver_sound (assign_solver km).
Proof. exact assign_solver_sound_lemma. Qed.

(* for thr > 0 and streams that mention only the declared columns (always the case in the tracker) the guard of
   [assign_solver] is passed: the solver is [sort_winners] itself, read back per candidate *)
Theorem assign_solver_is_voting_model :
  forall km tag thr n cols ps,
    (0 < thr)%Z -> (forall i j w, In (i, j, w) ps -> (j < length cols)%nat) ->
    assign_solver km tag thr n cols ps =
    match sort_winners km thr n (length cols) (enc ps) with
    | Some W => winners_to_cols n W
    | None => repeat None n
    end.
Proof. exact assign_solver_is_raw. Qed.

(* e.g.: with the real voting no two detections of a call receive the same track id *)
Corollary predict_ids_nodup_real_voting :
  forall G D2R c (km : matrix -> list nat), km_optimal km ->
    forall st scene dets recs st',
      reach G D2R (assign_solver km) c st -> ok_op st (Predict scene dets) ->
      tstep G D2R (assign_solver km) c st (Predict scene dets) = (ORecords recs, st') -> NoDup (map r_id recs).
Proof.
  intros G D2R c km Hkm. exact (predict_ids_nodup G D2R (assign_solver km) c (assign_solver_sound km Hkm)).
Qed.

(* THE VISUAL TRACKERS (VisualSort, BatchVisualSort).  They share the whole lifecycle with SORT; their step function in
   the model is [tstep_visual] = the same operations with their own TRANSLATED prologue (gen/ScalarTracker.v
   auto_waste_prologue_visual / _batch_visual), which coincides with [tstep] by the spec lemma; what differs is how a
   call associates detections with relevant tracks (C12).  [given_solver f] uses an association supplied from outside
   (per call, by tag and column names) iff it passes the executable interface check [sound_assignmentb] (one answer per
   candidate, only offered pairs, no track twice), else "all new" - it satisfies the interface for EVERY f. *)
Theorem given_solver_sound : forall f, solver_sound (given_solver f).
Proof. exact given_solver_sound_lemma. Qed.

Theorem visual_step_is_tracker_step :
  forall G D2R solve c st op, tstep_visual G D2R solve c st op = tstep G D2R solve c st op.
Proof. exact tstep_visual_eq. Qed.

Theorem visual_reachable_is_reachable :
  forall G D2R solve c st, reach_visual G D2R solve c st <-> reach G D2R solve c st.
Proof. exact reach_visual_iff. Qed.

(* the whole output contract for a visual tracker whose association is ANY function passing the check *)
Theorem theorems_apply_to_visual_trackers :
  forall G D2R f c st scene dets recs st',
    reach_visual G D2R (given_solver f) c st -> ok_op st (Predict scene dets) ->
    tstep_visual G D2R (given_solver f) c st (Predict scene dets) = (ORecords recs, st') ->
    length recs = length dets
    /\ (forall i d r, nth_error dets i = Some d -> nth_error recs i = Some r ->
          r_obs r = d_uid d /\ r_custom r = d_custom d /\ r_scene r = scene)
    /\ (epoch_of (epochs st') scene = epoch_of (epochs st) scene + 1 /\
        forall i d r, nth_error dets i = Some d -> nth_error recs i = Some r ->
          r_epoch r = epoch_of (epochs st') scene /\
          exists t, In t (live st') /\ t_id t = r_id r /\ r_len r = t_len t
                    /\ t_len t = N.of_nat (length (g_dets t)) /\ last (g_dets t) 0 = d_uid d)
    /\ NoDup (map r_id recs)
    /\ (forall r, In r recs ->
          (exists t0, In t0 (live st) /\ t_id t0 = r_id r /\ t_scene t0 = scene) \/ next_id st < r_id r <= next_id st').
Proof.
  intros G D2R f c st scene dets recs st' Hr Hok H.
  apply reach_visual_iff in Hr. rewrite tstep_visual_eq in H. pose proof (given_solver_sound f) as Hs.
  split; [exact (predict_one_record_per_detection G D2R _ c Hs _ _ _ _ _ Hr H)|].
  split; [exact (predict_records_in_order G D2R _ c Hs _ _ _ _ _ Hr H)|].
  split; [exact (predict_record_epoch_len G D2R _ c Hs _ _ _ _ _ Hr H)|].
  split; [exact (predict_ids_nodup G D2R _ c Hs _ _ _ _ _ Hr Hok H)|].
  exact (new_ids_fresh G D2R _ c Hs _ _ _ _ _ Hr H).
Qed.

(* Non-vacuity: a crowded call - 3 mutually overlapping detections (every one gated to both tracks) over 2
   live tracks.  Both branches (continue / start) are exercised, the ids are distinct, the new id is fresh. *)
Definition ex_G (cand : N) (dets : list N) : option Z :=
  match cand, last dets 0 with
  | 3, 1 => Some 900000%Z | 3, 2 => Some 500000%Z
  | 4, 1 => Some 600000%Z | 4, 2 => Some 800000%Z
  | 5, 1 => Some 700000%Z | 5, 2 => Some 700000%Z
  | _, _ => None
  end.
Definition ex_cfg : cfg := {| max_idle := 2; hist_len := 2; shards := 2; thr := 300000%Z; table := [] |}.
Definition ex_D (u : N) : detection := {| d_uid := u; d_custom := Some (Z.of_N u) |}.

Example c01_nonvacuous :
  let '(outs, st) := trun ex_G (fun _ _ => 0%Q) best_matching ex_cfg
                          [Predict 7 [ex_D 1; ex_D 2]; Predict 7 [ex_D 3; ex_D 4; ex_D 5]] in
  map (fun o => match o with ORecords l => map (fun r => (r_id r, r_epoch r, r_len r, r_obs r, r_name r)) l | _ => [] end) outs
  = [[(1, 1, 1, 1, 1); (2, 1, 1, 2, 2)]; [(1, 2, 2, 3, 1); (2, 2, 2, 4, 2); (3, 2, 1, 5, 5)]]
  /\ next_id st = 3
  /\ count_optimal (thr ex_cfg) 3 [(0%nat, 0%nat, 900000%Z); (0%nat, 1%nat, 500000%Z); (1%nat, 0%nat, 600000%Z); (1%nat, 1%nat, 800000%Z); (2%nat, 0%nat, 700000%Z); (2%nat, 1%nat, 700000%Z)] = 1.
Proof. vm_compute. repeat split; reflexivity. Qed.

(* the same history through the voting model (padded 3 x 5 matrix, brute-force optimum as kuhn_munkres): same records *)
Example c01_nonvacuous_real_voting :
  fst (trun ex_G (fun _ _ => 0%Q) (assign_solver km_brute) ex_cfg [Predict 7 [ex_D 1; ex_D 2]; Predict 7 [ex_D 3; ex_D 4; ex_D 5]])
  = fst (trun ex_G (fun _ _ => 0%Q) best_matching ex_cfg [Predict 7 [ex_D 1; ex_D 2]; Predict 7 [ex_D 3; ex_D 4; ex_D 5]]).
Proof. vm_compute. reflexivity. Qed.

(* the visual route: the association read off a run (by track names) is used when it passes the check - records as
   above -, and an association that gives track 1 to two detections of the call is rejected ("all new") *)
Example c01_visual_nonvacuous :
  let ids hs := map (fun o => match o with ORecords l => map r_id l | _ => [] end)
                    (fst (trun_visual ex_G (fun _ _ => 0%Q) (given_solver (given_by_name hs)) ex_cfg
                                      [Predict 7 [ex_D 1; ex_D 2]; Predict 7 [ex_D 3; ex_D 4; ex_D 5]])) in
  ids [(3, [Some 1; Some 2; None])] = [[1; 2]; [1; 2; 3]]
  /\ ids [(3, [Some 1; Some 1; None])] = [[1; 2]; [3; 4; 5]]
  /\ sound_assignmentb 3 [(0%nat, 0%nat, 900000%Z); (1%nat, 0%nat, 600000%Z); (1%nat, 1%nat, 800000%Z)] [Some 0%nat; Some 0%nat; None] = false.
Proof. vm_compute. repeat split; reflexivity. Qed.
