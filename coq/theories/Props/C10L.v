(* C10L - link between the distance-protocol model (Model/DistProto.v: C10, C05) and the track model
   (Model/Track.v: C11, C09).  Property theorems only; proofs live in Proofs/StoreDistLink.v.

   DistProto's Section variables (tid, compatible, baked, observations, metric, postprocess) are instantiated
   with the generic track of Model/Track.v and its read-only callbacks.  For EVERY pair of tracks, class and
   only_baked flag, DistProto's per-pair functions coincide with Track.distances:
     - DistProto's own `distances` is Track.distances (the class-missing error carrying (from, to, class));
     - the worker's `visit`: same id -> skipped; only_baked and not Ready -> skipped; Ok list -> an ok result
       (after postprocess); Incompatible -> nothing; ClassMissing -> an err entry;
     - the specification's `pair_ok` / `pair_err` on an eligible pair are Track.distances's Ok list (postprocessed)
       resp. its ClassMissing entry; an eligible pair is never Incompatible; an ineligible pair is a same-id pair,
       an Incompatible pair, or (only_baked) a not-Ready track. *)
From Coq Require Import List NArith Bool.
From Similari Require Import Model.Track Model.Store Model.DistProto Proofs.StoreDistLink.
Import ListNotations.

Section C10L.
  Variables TA OA FT MS MOUT : Type.
  Notation track := (Track.track TA OA FT MS).
  Notation observation := (Track.observation OA FT).
  Notation obsdb := (Track.obsdb OA FT).

  Variable cb_compatible : TA -> TA -> bool.
  Variable cb_metric : MS -> N -> TA -> observation -> TA -> observation -> option MOUT.
  Variable cb_baked : TA -> obsdb -> bstatus.
  Variable cb_postprocess : MS -> list (N * N * MOUT) -> list (N * N * MOUT).

  Notation i_tid := (i_tid TA OA FT MS).
  Notation i_compatible := (i_compatible TA OA FT MS cb_compatible).
  Notation i_baked := (i_baked TA OA FT MS cb_baked).
  Notation i_observations := (i_observations TA OA FT MS).
  Notation i_metric := (i_metric TA OA FT MS MOUT cb_metric).
  Notation i_postprocess := (i_postprocess TA OA FT MS MOUT cb_postprocess).
  Notation p_distances := (DistProto.distances track observation MOUT i_tid i_compatible i_observations i_metric).
  Notation p_visit := (DistProto.visit track observation MOUT i_tid i_compatible i_baked i_observations i_metric i_postprocess).
  Notation p_pair_ok := (DistProto.pair_ok track observation MOUT i_tid i_observations i_metric i_postprocess).
  Notation p_pair_err := (DistProto.pair_err track observation i_tid i_observations).
  Notation p_eligible := (DistProto.eligible track i_tid i_compatible i_baked).
  Notation t_distances := (Track.distances cb_compatible cb_metric).
  Notation conv := (conv TA OA FT MS MOUT).

  Theorem dist_proto_pair_is_track_distances : forall (c o : track) (cls : N) (only_baked : bool),
      p_distances c o cls = conv c o cls (t_distances c o cls) /\
      p_visit c cls only_baked o =
        (if (tid c =? tid o)%N then None
         else if only_baked && negb (is_ready (i_baked o)) then None
         else match t_distances c o cls with
              | Track.DOk l => Some (inl (cb_postprocess (mstate c) l))
              | Track.DIncompatible => None
              | Track.DClassMissing => Some (inr (tid c, tid o, cls))
              end) /\
      (p_eligible c only_baked o = true ->
       match t_distances c o cls with
       | Track.DOk l => p_pair_ok c cls o = cb_postprocess (mstate c) l /\ p_pair_err c cls o = []
       | Track.DClassMissing => p_pair_ok c cls o = [] /\ p_pair_err c cls o = [(tid c, tid o, cls)]
       | Track.DIncompatible => False
       end) /\
      (p_eligible c only_baked o = false ->
       (tid c =? tid o)%N = true \/ t_distances c o cls = Track.DIncompatible \/
       (only_baked = true /\ is_ready (i_baked o) = false)).
  Proof. exact (dist_proto_pair_is_track_distances_lemma TA OA FT MS MOUT cb_compatible cb_metric cb_baked cb_postprocess). Qed.
End C10L.
