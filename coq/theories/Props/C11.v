(* C11 - Track updates are atomic under user-callback failures; merge history is maintained correctly.
   Property theorems only; proofs live in Proofs/TrackProofs.v and Proofs/StoreProofs.v.

   Everything is stated for ALL callbacks (apply / attribute merge / optimize return their possibly mutated
   state together with an ok flag, and thread an arbitrary world W that is never rolled back), hence for every
   position at which a callback can be made to fail, for tracks with any number of classes, any class list,
   both values of the history flag, any number n >= 1 of shards. *)
From Coq Require Import List NArith Bool.
From Similari Require Import Model.Track Model.Store Proofs.TrackProofs Proofs.StoreProofs.
Import ListNotations.

Section C11.
  Variables TA UPD OA FT MS W LQ : Type.
  Notation track := (track TA OA FT MS).
  Notation observation := (observation OA FT).
  Notation obsdb := (obsdb OA FT).

  Variable cb_apply : W -> UPD -> TA -> W * bool * TA.
  Variable cb_merge : W -> TA -> TA -> W * bool * TA.
  Variable cb_optimize :
    W -> MS -> N -> list N -> TA -> list observation -> nat -> bool -> W * bool * MS * TA * list observation.
  Variable cb_baked : TA -> obsdb -> bstatus.
  Variable cb_lookup : LQ -> TA -> obsdb -> list N -> bool.
  Variable dflt_metric : MS.
  Variable dflt_attrs : TA.

  Notation add_observation := (add_observation cb_apply cb_optimize).
  Notation merge := (merge cb_merge cb_optimize).
  Notation build := (build cb_apply cb_optimize).
  Notation sstep := (sstep TA UPD OA FT MS W LQ cb_apply cb_merge cb_optimize cb_baked cb_lookup dflt_metric dflt_attrs).
  Notation find := (find TA OA FT MS).
  Notation wfn := (wfn TA OA FT MS).
  Notation requested_present := (requested_present TA OA FT MS).

  (* Track::add_observation: on Err the track is exactly what it was (attributes, id, observations of every
     class, metric state, merge history) and nothing was notified; on Ok exactly one notification. *)
  Theorem add_observation_atomic : forall w self cls fa f upd w' r t' n,
      add_observation w self cls fa f upd = (w', r, t', n) ->
      match r with
      | Err _ => t' = self /\ n = 0%nat
      | Ok _ => n = 1%nat /\ tid t' = tid self /\ hist t' = hist self
      end.
  Proof. exact (add_observation_atomic_lemma TA UPD OA FT MS W cb_apply cb_optimize). Qed.

  (* Track::merge: the same, whatever class the optimisation fails at; on Ok the history is the previous one
     followed ONCE by the source's iff history is enabled and some requested class is present in either track *)
  Theorem merge_atomic : forall w self other classes mh w' r t' n,
      merge w self other classes mh = (w', r, t', n) ->
      match r with
      | Err _ => t' = self /\ n = 0%nat
      | Ok _ => n = 1%nat /\ tid t' = tid self /\
                hist t' = if mh && requested_present self other classes
                          then hist self ++ hist other else hist self
      end.
  Proof. exact (merge_spec_lemma TA OA FT MS W cb_merge cb_optimize). Qed.

  Theorem merge_history_spec : forall w self other classes mh w' r t' n,
      merge w self other classes mh = (w', r, t', n) ->
      match r with
      | Err _ => hist t' = hist self
      | Ok _ =>
          (mh = true -> requested_present self other classes = true -> hist t' = hist self ++ hist other) /\
          (mh = false -> hist t' = hist self) /\
          (requested_present self other classes = false -> hist t' = hist self) /\
          (hist t' = hist self \/ hist t' = hist self ++ hist other)   (* never emptied, truncated, extended twice *)
      end.
  Proof. exact (merge_history_lemma TA OA FT MS W cb_merge cb_optimize). Qed.

  (* the only errors are the callbacks' *)
  Theorem merge_error_is_callback_error : forall w self other classes mh w' e t' n,
      merge w self other classes mh = (w', Err e, t', n) -> e = EAttrMerge \/ e = EOptimize.
  Proof. exact (merge_err_kind TA OA FT MS W cb_merge cb_optimize). Qed.

  (* TrackStore::merge_owned: a failed owned merge leaves BOTH tracks (every track) stored and unchanged *)
  Theorem merge_owned_failure_keeps_both : forall n w st dst src_id cls rm mh w' e st' k,
      wfn n st -> sstep w st (MergeOwned dst src_id cls rm mh) = (w', ROwned (Err e), st', k) ->
      (forall id, find st' id = find st id) /\ k = 0%nat.
  Proof.
    exact (merge_owned_failure_keeps_both_lemma TA UPD OA FT MS W LQ cb_apply cb_merge cb_optimize cb_baked
                                                 cb_lookup dflt_metric dflt_attrs).
  Qed.

  (* TrackStore::add. Stored id: atomic as add_observation. Missing id: the track is built by the builder; when
     that fails nothing is stored (the single notification is Track::new's, for the discarded track). *)
  Theorem store_add_atomic : forall n w st id cls fa f u w' ru st' k,
      wfn n st -> sstep w st (Add id cls fa f u) = (w', RUnit ru, st', k) ->
      match find st id with
      | Some t =>
          match ru with
          | Err _ => (forall id', find st' id' = find st id') /\ k = 0%nat
          | Ok _ => k = 1%nat /\ exists t', add_observation w t cls fa f u = (w', Ok tt, t', k) /\
                                            forall id', find st' id' = if (id' =? id)%N then Some t' else find st id'
          end
      | None =>
          match ru with
          | Err _ => st' = st /\ k = 1%nat
          | Ok _ => k = 2%nat /\ exists t', build w id dflt_metric dflt_attrs [(cls, fa, f, u)] = (w', Ok t', k) /\
                                            forall id', find st' id' = if (id' =? id)%N then Some t' else find st id'
          end
      end.
  Proof.
    exact (store_add_atomic_lemma TA UPD OA FT MS W LQ cb_apply cb_merge cb_optimize cb_baked cb_lookup
                                   dflt_metric dflt_attrs).
  Qed.

  (* merge_external / merge_external_noblock + get through the store: failure leaves the store as it was *)
  Theorem store_merge_external_atomic : forall n w st dst src cls mh (noblock : bool) w' r st' k,
      wfn n st ->
      sstep w st (if noblock then MergeExtNoblock dst src cls mh else MergeExt dst src cls mh
                  : sop TA UPD OA FT MS LQ) = (w', r, st', k) ->
      exists ru, r = RUnit ru /\
      match find st dst with
      | None => ru = Err (ENotFound dst) /\ st' = st /\ k = 0%nat /\ w' = w
      | Some d =>
          if (dst =? tid src)%N then ru = Err (ESameTrack dst) /\ st' = st /\ k = 0%nat /\ w' = w
          else exists d', merge w d src (eff_classes TA OA FT MS src (opt_classes cls)) mh = (w', ru, d', k) /\
                          match ru with
                          | Err _ => (forall id, find st' id = find st id) /\ k = 0%nat
                          | Ok _ => k = 1%nat /\
                                    forall id, find st' id = if (id =? dst)%N then Some d' else find st id
                          end
      end.
  Proof.
    exact (merge_external_spec_lemma TA UPD OA FT MS W LQ cb_apply cb_merge cb_optimize cb_baked cb_lookup
                                      dflt_metric dflt_attrs).
  Qed.
End C11.

(* Non-vacuity, on the scripted algebra that the correspondence harness implements: optimize mutates the
   attributes, the observation vector and the metric and THEN fails at the second class of a merge; the
   destination comes back exactly as it was, nothing notified; without the fault the history is extended once. *)
Import Alg.
Open Scope N_scope.

Definition c11_scenario (fo : list N) :=
  run_track (plan [] [] fo)
            [TNew 0 10; TAdd 0 1 (Some 3) None (Some (1, false)); TAdd 0 2 (Some 5) (Some 1) None;
             TNew 1 20; TAdd 1 1 (Some 4) None None; TAdd 1 2 (Some 2) None None;
             TMerge 0 1 [1; 2] true].

Definition c11_dflt := ((0, 0), 0, @nil (TA * N * Track.obsdb OA FT * MS * list N)).

Example c11_nonvacuous_failure :
  let r := c11_scenario [5] in
  fst (fst (nth 6 r c11_dflt)) = (3, 0)             (* EOptimize, at the second class *)
  /\ snd (fst (nth 6 r c11_dflt)) = 0               (* no notification *)
  /\ snd (nth 6 r c11_dflt) = snd (nth 2 r c11_dflt) (* destination exactly as after its last successful update *)
  /\ fst (fst (nth 6 (c11_scenario [4]) c11_dflt)) = (3, 0)
  /\ snd (nth 6 (c11_scenario [4]) c11_dflt) = snd (nth 2 r c11_dflt).
Proof. vm_compute. repeat split; reflexivity. Qed.

Example c11_nonvacuous_success :
  match nth 6 (c11_scenario []) c11_dflt with
  | (code, notes, [t]) => code = (0, 0) /\ notes = 1 /\ snd t = [10; 20]
  | _ => False
  end.
Proof. vm_compute. repeat split; reflexivity. Qed.
