(* C10 - Distance queries are exact and schedule independent.
   Property theorems only; model in Model/DistProto.v, proofs in Proofs/DistProtoProofs.v.

   All theorems are stated for EVERY track type and EVERY user callback (tid, compatible, baked,
   observations, metric, postprocess), every store content [sh] (a list of shards, any number, any
   distribution), every candidate batch, both [only_baked] settings, and every complete interleaving
   [sigma] of the caller's steps (DCopy, DEnq, DRecvOk, DRecvErr) with the workers' steps (DExec k). *)
From Coq Require Import List NArith Bool Arith Permutation.
From Similari Require Import Model.DistProto Proofs.DistProtoProofs Model.DistProtoFine Proofs.DistProtoFineProofs.
Import ListNotations.

Section C10.
  Variable track : Type.
  Variable OBS : Type.
  Variable MV : Type.
  Variable tid : track -> N.
  Variable compatible : track -> track -> bool.
  Variable baked : track -> status.
  Variable observations : track -> N -> option (list OBS).
  Variable metric : N -> track -> OBS -> track -> OBS -> option MV.
  Variable postprocess : track -> list (res MV) -> list (res MV).

  Notation RUN := (drun track OBS MV tid compatible baked observations metric postprocess).
  Notation FIRE := (dfire track OBS MV tid compatible baked observations metric postprocess).
  Notation FINAL := (dfinal track MV).
  Notation OKSPEC := (ok_spec track OBS MV tid compatible baked observations metric postprocess).
  Notation ERRSPEC := (err_spec track OBS tid compatible baked observations).

  (* The results delivered on the ok stream are, as a multiset, exactly the specified ones: for every
     candidate and every stored track with a different id that is compatible (and Ready when only ready
     tracks are requested) the (postprocessed) metric values of all observation pairs; the error stream
     carries exactly the missing-feature-class cases. The store is not modified. *)
  Theorem foreign_query_exact :
    forall cls ob (sh : list (list track)) (cands : list track) sigma st,
      RUN cls ob (foreign_init track MV sh cands) sigma = Some st -> FINAL st = true ->
      Permutation (concat (got_ok st)) (OKSPEC (concat sh) cands cls ob) /\
      Permutation (concat (got_err st)) (ERRSPEC (concat sh) cands cls ob) /\
      shards st = sh.
  Proof. exact (foreign_query_exact_lemma track OBS MV tid compatible baked observations metric postprocess). Qed.

  (* reading of the specification: with the default (identity) postprocessing a compared pair of tracks
     contributes exactly one result per observation pair for which the metric yields a value ... *)
  Theorem spec_one_result_per_observation_pair :
    forall cls (c o : track) (l r : list OBS),
      (forall c l, postprocess c l = l) ->
      observations c cls = Some l -> observations o cls = Some r ->
      pair_ok track OBS MV tid observations metric postprocess c cls o =
      flat_map (fun a => flat_map (fun b => match metric cls c a o b with
                                            | Some v => [(tid c, tid o, v)] | None => [] end) r) l.
  Proof. exact (spec_one_per_observation_pair_lemma track OBS MV tid observations metric postprocess). Qed.

  (* ... and never pairs a track with itself (for every postprocessing that does not invent results) *)
  Theorem spec_never_pairs_a_track_with_itself :
    forall cls ob all cands (r : res MV),
      (forall c l x, In x (postprocess c l) -> In x l) ->
      In r (OKSPEC all cands cls ob) -> fst (fst r) <> snd (fst r).
  Proof. exact (spec_no_self_pairs_lemma track OBS MV tid compatible baked observations metric postprocess). Qed.

  Theorem query_schedule_independent :
    forall cls ob sh cands s1 s2 st1 st2,
      RUN cls ob (foreign_init track MV sh cands) s1 = Some st1 -> FINAL st1 = true ->
      RUN cls ob (foreign_init track MV sh cands) s2 = Some st2 -> FINAL st2 = true ->
      Permutation (concat (got_ok st1)) (concat (got_ok st2)) /\
      Permutation (concat (got_err st1)) (concat (got_err st2)).
  Proof. exact (query_schedule_independent_lemma track OBS MV tid compatible baked observations metric postprocess). Qed.

  (* two shardings (any shard counts, any schedules) of the same stored tracks give the same multisets *)
  Theorem query_shard_independent :
    forall cls ob sh1 sh2 cands s1 s2 st1 st2,
      Permutation (concat sh1) (concat sh2) ->
      RUN cls ob (foreign_init track MV sh1 cands) s1 = Some st1 -> FINAL st1 = true ->
      RUN cls ob (foreign_init track MV sh2 cands) s2 = Some st2 -> FINAL st2 = true ->
      Permutation (concat (got_ok st1)) (concat (got_ok st2)) /\
      Permutation (concat (got_err st1)) (concat (got_err st2)).
  Proof. exact (query_shard_independent_lemma track OBS MV tid compatible baked observations metric postprocess). Qed.

  (* in particular the store's own placement rule (shard = id mod n) for any n >= 1 *)
  Theorem store_sharding_covers :
    forall n (all : list track), 0 < n -> Permutation (concat (distribute track tid n all)) all.
  Proof. exact (concat_distribute track tid). Qed.

  (* exactly n x |cands| chunks are produced on each channel and exactly that many are read: all() and the
     iterators terminate, never over-read, and leave nothing behind *)
  Theorem chunk_count :
    forall cls ob sh cands sigma st,
      RUN cls ob (foreign_init track MV sh cands) sigma = Some st -> FINAL st = true ->
      length (got_ok st) = length sh * length cands /\ length (got_err st) = length sh * length cands /\
      ok_chan st = [] /\ err_chan st = [] /\ Forall (fun q => q = []) (queues st).
  Proof. exact (chunk_count_lemma track OBS MV tid compatible baked observations metric postprocess). Qed.

  (* every reachable state in which the caller has not finished has an enabled step ... *)
  Theorem query_no_deadlock :
    forall cls ob sh cands sigma st,
      RUN cls ob (foreign_init track MV sh cands) sigma = Some st -> FINAL st = false ->
      exists l st', FIRE cls ob st l = Some st'.
  Proof. exact (query_no_deadlock_lemma track OBS MV tid compatible baked observations metric postprocess). Qed.

  (* ... and every step decreases a natural-number measure, so every run terminates *)
  Theorem query_terminates :
    forall cls ob st l st',
      pre st = None -> FIRE cls ob st l = Some st' -> dmeasure track MV st' < dmeasure track MV st.
  Proof. exact (measure_decreases_lemma track OBS MV tid compatible baked observations metric postprocess). Qed.

  (* Owned query: the candidates are the stored tracks with the requested ids; each is compared with every
     other stored track, the other candidates included; the store is unchanged. *)
  Theorem owned_query_exact :
    forall cls ob sh ids sigma st,
      RUN cls ob (owned_init track MV sh ids) sigma = Some st -> FINAL st = true ->
      Permutation (concat (got_ok st)) (OKSPEC (concat sh) (owned_cands track tid sh ids) cls ob) /\
      Permutation (concat (got_err st)) (ERRSPEC (concat sh) (owned_cands track tid sh ids) cls ob) /\
      shards st = sh.
  Proof. exact (owned_query_exact_lemma track OBS MV tid compatible baked observations metric postprocess). Qed.

  Theorem owned_candidates_are_the_stored_tracks :
    forall sh ids t,
      well_sharded track tid sh -> In t (concat sh) -> In (tid t) ids -> In t (owned_cands track tid sh ids).
  Proof. exact (owned_cands_complete track tid). Qed.

  Theorem owned_query_compares_candidates_with_one_another :
    forall cls ob sh ids sigma st c1 c2 (r : res MV),
      RUN cls ob (owned_init track MV sh ids) sigma = Some st -> FINAL st = true ->
      In c1 (owned_cands track tid sh ids) -> In c2 (owned_cands track tid sh ids) ->
      eligible track tid compatible baked c1 ob c2 = true ->
      In r (pair_ok track OBS MV tid observations metric postprocess c1 cls c2) ->
      In r (concat (got_ok st)).
  Proof. exact (owned_query_mutual_lemma track OBS MV tid compatible baked observations metric postprocess). Qed.

  Theorem owned_query_no_deadlock :
    forall cls ob sh ids sigma st,
      RUN cls ob (owned_init track MV sh ids) sigma = Some st -> FINAL st = false ->
      exists l st', FIRE cls ob st l = Some st'.
  Proof. exact (owned_no_deadlock_lemma track OBS MV tid compatible baked observations metric postprocess). Qed.
End C10.

(* ---------------------------------------------------------------------------------------------------------
   Fine-grained model (Model/DistProtoFine.v): a worker's command is TWO steps, the send of the ok chunk and the
   send of the err chunk, with the shard lock released and arbitrary steps of the caller and of the other workers
   in between (as in handle_store_ops). The results are the same. *)
Section C10_Fine.
  Variable track : Type.
  Variable OBS : Type.
  Variable MV : Type.
  Variable tid : track -> N.
  Variable compatible : track -> track -> bool.
  Variable baked : track -> status.
  Variable observations : track -> N -> option (list OBS).
  Variable metric : N -> track -> OBS -> track -> OBS -> option MV.
  Variable postprocess : track -> list (res MV) -> list (res MV).

  Notation FRUN := (frun track OBS MV tid compatible baked observations metric postprocess).
  Notation FFIRE := (ffire track OBS MV tid compatible baked observations metric postprocess).
  Notation OKSPEC := (ok_spec track OBS MV tid compatible baked observations metric postprocess).
  Notation ERRSPEC := (err_spec track OBS tid compatible baked observations).

  (* exactness, chunk counts, nothing left in a channel, no worker left between its two sends, store unchanged *)
  Theorem query_exact_fine_grained :
    forall cls ob (sh : list (list track)) (cands : list track) sigma st,
      FRUN cls ob (finit_foreign track MV sh cands) sigma = Some st -> ffinal track MV st = true ->
      Permutation (concat (got_ok (fb st))) (OKSPEC (concat sh) cands cls ob) /\
      Permutation (concat (got_err (fb st))) (ERRSPEC (concat sh) cands cls ob) /\
      shards (fb st) = sh /\
      length (got_ok (fb st)) = length sh * length cands /\ length (got_err (fb st)) = length sh * length cands /\
      ok_chan (fb st) = [] /\ err_chan (fb st) = [] /\ Forall (fun o => o = None) (half st).
  Proof. exact (query_exact_fine_lemma track OBS MV tid compatible baked observations metric postprocess). Qed.

  Theorem query_no_deadlock_fine_grained :
    forall cls ob sh cands sigma st,
      FRUN cls ob (finit_foreign track MV sh cands) sigma = Some st -> ffinal track MV st = false ->
      exists l st', FFIRE cls ob st l = Some st'.
  Proof. exact (no_deadlock_fine_lemma track OBS MV tid compatible baked observations metric postprocess). Qed.

  Theorem owned_query_exact_fine_grained :
    forall cls ob sh ids sigma st,
      FRUN cls ob (finit_owned track MV sh ids) sigma = Some st -> ffinal track MV st = true ->
      Permutation (concat (got_ok (fb st))) (OKSPEC (concat sh) (owned_cands track tid sh ids) cls ob) /\
      Permutation (concat (got_err (fb st))) (ERRSPEC (concat sh) (owned_cands track tid sh ids) cls ob) /\
      shards (fb st) = sh.
  Proof. exact (owned_query_exact_fine_lemma track OBS MV tid compatible baked observations metric postprocess). Qed.
End C10_Fine.

(* The shape owned_track_distances had before the fix (fetch out / enqueue / re-add) violates the property:
   there is a schedule on which the queried tracks are missing from one another's results, and the result
   depends on the schedule. *)
Theorem owned_query_refuted :
  exists sh ids cls ob sigma s,
    Legacy.lrun cls ob (Legacy.legacy_init sh ids) sigma = Some s /\ Legacy.lfinal s = true /\
    ~ Permutation (concat (got_ok (Legacy.base s)))
        (DistInst.okspec (concat sh) (owned_cands DistInst.trk DistInst.t_id sh ids) cls ob).
Proof. exact LegacyWitness.owned_query_refuted_lemma. Qed.

Theorem legacy_owned_query_schedule_dependent :
  exists sh ids cls ob s1 s2 r1 r2,
    Legacy.lrun cls ob (Legacy.legacy_init sh ids) s1 = Some r1 /\ Legacy.lfinal r1 = true /\
    Legacy.lrun cls ob (Legacy.legacy_init sh ids) s2 = Some r2 /\ Legacy.lfinal r2 = true /\
    length (concat (got_ok (Legacy.base r1))) <> length (concat (got_ok (Legacy.base r2))).
Proof. exact LegacyWitness.legacy_schedule_dependent_lemma. Qed.

(* Non-vacuity: a 2-shard store, two candidates (one foreign, one with the id of a stored track), a missing
   class, an incompatible pair and a not-ready track; one complete interleaving in which the workers run
   in the order shard 1, shard 0, shard 0, shard 1 and the caller reads in between. *)
Example c10_nonvacuous :
  let t1 := DistInst.mkT 2 0 1 [(0%N, [1%N; 2%N])] in
  let t2 := DistInst.mkT 4 1 0 [(0%N, [3%N])] in
  let t3 := DistInst.mkT 3 0 1 [(1%N, [5%N])] in
  let c1 := DistInst.mkT 9 0 1 [(0%N, [2%N])] in
  let c2 := DistInst.mkT 3 2 1 [(0%N, [1%N])] in
  exists r,
    DistInst.run_foreign [[t1; t2]; [t3]] [c1; c2] 0 false
      [DEnq 0; DEnq 1; DExec 1; DEnq 0; DExec 0; DRecvOk; DEnq 1; DExec 0; DExec 1;
       DRecvErr; DRecvOk; DRecvOk; DRecvOk; DRecvErr; DRecvErr; DRecvErr] = Some (true, fst r, snd r)
    /\ concat (fst r) <> [] /\ concat (snd r) <> [].
Proof. eexists (_, _). split; [vm_compute; reflexivity|]. split; discriminate. Qed.
