(* C19 - Box representations convert and render consistently; box equality is a symmetric tolerance relation.
   Property theorems only; proofs live in Proofs/BoxProofs.v. Every function named here (bbox_eq, ubox_eq,
   bbox_to_ubox, ubox_to_bbox, ubox_vertices, ubox_area, ubox_radius_sq, normalize_angle) is the Gallina that
   tools/rs2v.py generated from /repo/src/utils/bbox.rs on this run (gen/ScalarBox.v), instantiated with exact
   rationals. cos/sin of the box angle enter the polygon as parameters c, s (with c^2+s^2 = 1 where needed), pi
   enters normalize_angle as a positive parameter; square roots never appear (the radius is compared squared). *)
From Coq Require Import ZArith QArith Qabs Bool List.
From Similari Require Import Base.Num Proofs.BoxProofs Proofs.KalmanBoxProofs.
From SimilariGen Require Import Consts Scalar ScalarBox ScalarKalmanBox.
Import ListNotations.
Open Scope Q_scope.

(* --- conversions ------------------------------------------------------------------------------------------ *)

(* The universal form of a left-top-width-height box is (centre, no angle, aspect = width/height, height). *)
Theorem universal_form_is_centre_aspect_height :
  forall b : BoundingBox Qops,
    let u := bbox_to_ubox Qops b in
    Universal2DBox_xc Qops u == BoundingBox_left Qops b + BoundingBox_width Qops b / 2 /\
    Universal2DBox_yc Qops u == BoundingBox_top Qops b + BoundingBox_height Qops b / 2 /\
    Universal2DBox_angle Qops u = None /\
    Universal2DBox_aspect Qops u == BoundingBox_width Qops b / BoundingBox_height Qops b /\
    Universal2DBox_height Qops u == BoundingBox_height Qops b /\
    Universal2DBox_confidence Qops u == BoundingBox_confidence Qops b.
Proof. exact bbox_to_ubox_spec. Qed.

(* ltwh -> universal -> ltwh returns the same box (every field, exactly), for every box of non-zero height. *)
Theorem ltwh_roundtrip :
  forall b : BoundingBox Qops, ~ BoundingBox_height Qops b == 0 ->
    exists b', ubox_to_bbox Qops (bbox_to_ubox Qops b) = Some b' /\ bbox_Qeq b' b.
Proof. exact ltwh_roundtrip_lemma. Qed.

(* universal (no angle) -> ltwh -> universal returns the same box. *)
Theorem xyaah_roundtrip :
  forall u : Universal2DBox Qops, Universal2DBox_angle Qops u = None -> ~ Universal2DBox_height Qops u == 0 ->
    exists b, ubox_to_bbox Qops u = Some b /\ ubox_Qeq (bbox_to_ubox Qops b) u.
Proof. exact xyaah_roundtrip_lemma. Qed.

(* A box that carries an angle has no ltwh form: the conversion reports an error instead of dropping the angle. *)
Theorem rotated_not_convertible :
  forall (u : Universal2DBox Qops) a, Universal2DBox_angle Qops u = Some a -> ubox_to_bbox Qops u = None.
Proof. exact rotated_not_convertible_lemma. Qed.

(* --- equality --------------------------------------------------------------------------------------------- *)

Theorem eq_refl :
  (forall b : BoundingBox Qops, bbox_eq Qops b b = true) /\ (forall u : Universal2DBox Qops, ubox_eq Qops u u = true).
Proof. exact (conj bbox_eq_refl_lemma ubox_eq_refl_lemma). Qed.

Theorem eq_sym :
  (forall a b : BoundingBox Qops, bbox_eq Qops a b = bbox_eq Qops b a) /\
  (forall a b : Universal2DBox Qops, ubox_eq Qops a b = ubox_eq Qops b a).
Proof. exact (conj bbox_eq_sym_lemma ubox_eq_sym_lemma). Qed.

(* all coordinates (left, top, width, height, confidence  resp.  xc, yc, angle, aspect, height) differ by less than EPS
   => equal *)
Theorem eq_if_all_within_eps :
  (forall a b : BoundingBox Qops, bbox_within EPS a b -> bbox_eq Qops a b = true) /\
  (forall a b : Universal2DBox Qops, ubox_within EPS a b -> ubox_eq Qops a b = true).
Proof. exact (conj bbox_eq_within_lemma ubox_eq_within_lemma). Qed.

(* some coordinate - width, height, angle, aspect included - differs by more than EPS => not equal *)
Theorem eq_fails_if_any_beyond_eps :
  (forall a b : BoundingBox Qops, bbox_beyond EPS a b -> bbox_eq Qops a b = false) /\
  (forall a b : Universal2DBox Qops, ubox_beyond EPS a b -> ubox_eq Qops a b = false).
Proof. exact (conj bbox_eq_beyond_lemma ubox_eq_beyond_lemma). Qed.

(* --- polygon ------------------------------------------------------------------------------------------------ *)

(* vertex k = centre + R(c,s) * corner k of the axis-aligned rectangle (aspect*h) x h *)
Theorem polygon_is_rotated_rectangle :
  forall (u : Universal2DBox Qops) (c s : Q),
    Forall2 coord_is (ubox_vertices Qops u c s)
            (map (rot_about (Universal2DBox_xc Qops u) (Universal2DBox_yc Qops u) c s) (corners u)).
Proof. exact polygon_is_rotated_rectangle_lemma. Qed.

(* shoelace area of the generated ring = the box's area() = aspect * h^2 *)
Theorem polygon_area :
  forall (u : Universal2DBox Qops) (c s : Q), c * c + s * s == 1 -> 0 <= Universal2DBox_aspect Qops u ->
    polygon_area_of (ubox_vertices Qops u c s) == ubox_area Qops u /\
    ubox_area Qops u == Universal2DBox_aspect Qops u * Universal2DBox_height Qops u * Universal2DBox_height Qops u.
Proof. intros u c s H1 H2. exact (conj (polygon_area_lemma u c s H1 H2) (ubox_area_spec u)). Qed.

Theorem polygon_centre :
  forall (u : Universal2DBox Qops) (c s : Q),
    fst (centroid (ubox_vertices Qops u c s)) == Universal2DBox_xc Qops u /\
    snd (centroid (ubox_vertices Qops u c s)) == Universal2DBox_yc Qops u.
Proof. exact polygon_centre_lemma. Qed.

(* every vertex lies at squared distance get_radius()^2 from the centre *)
Theorem polygon_radius :
  forall (u : Universal2DBox Qops) (c s : Q), c * c + s * s == 1 ->
    Forall (fun v => dist_sq v (Universal2DBox_xc Qops u) (Universal2DBox_yc Qops u) == ubox_radius_sq Qops u)
           (ubox_vertices Qops u c s).
Proof. exact polygon_radius_lemma. Qed.

(* --- angle normalisation ------------------------------------------------------------------------------------ *)

Theorem normalize_angle_range :
  forall a pi : Q, 0 < pi -> 0 <= normalize_angle Qops a pi /\ normalize_angle Qops a pi < 2 * pi.
Proof. intros a pi H. exact (proj1 (normalize_angle_spec a pi H)). Qed.

Theorem normalize_angle_equiv :
  forall a pi : Q, 0 < pi -> exists k : Z, normalize_angle Qops a pi == a - inject_Z k * (2 * pi).
Proof. intros a pi H. exact (proj2 (normalize_angle_spec a pi H)). Qed.

(* --- box <-> Kalman state (utils/kalman.rs; the tracker stores boxes as state means and reads them back) ------- *)

(* For every state mean (>= 5 components) the box read back has xc, yc, aspect, height = mean[0], mean[1], mean[3],
   mean[4], and angle = None if mean[2] = 0, Some mean[2] otherwise - for negative angles too. *)
Theorem kalman_state_to_box_exact :
  forall mean : list Q, (5 <= length mean)%nat ->
    exists u, kalman_state_to_ubox Qops mean = Some u /\ box_of_mean mean u.
Proof. exact kalman_state_to_box_exact_lemma. Qed.

(* box -> initiate (state mean) -> box returns the same box up to None-vs-Some(0): same centre, aspect and height, a
   non-zero angle is kept whatever its sign, and the result == the original in both argument orders
   (Universal2DBox::new gives the read-back box confidence 1; == on universal boxes does not look at the confidence). *)
Theorem kalman_roundtrip_preserves_box :
  forall b : Universal2DBox Qops,
    exists u, kalman_state_to_ubox Qops (kalman_initiate_mean Qops b) = Some u /\
      Universal2DBox_xc Qops u == Universal2DBox_xc Qops b /\ Universal2DBox_yc Qops u == Universal2DBox_yc Qops b /\
      Universal2DBox_aspect Qops u == Universal2DBox_aspect Qops b /\ Universal2DBox_height Qops u == Universal2DBox_height Qops b /\
      angle0 u == angle0 b /\
      (forall a, Universal2DBox_angle Qops b = Some a -> ~ a == 0 -> exists a', Universal2DBox_angle Qops u = Some a' /\ a' == a) /\
      (angle0 b == 0 -> Universal2DBox_angle Qops u = None) /\
      ubox_eq Qops u b = true /\ ubox_eq Qops b u = true.
Proof. exact kalman_roundtrip_preserves_box_lemma. Qed.

(* --- non-vacuity ------------------------------------------------------------------------------------------------ *)
(* a concrete ltwh box round-trips; width 1 vs width 100 (the pair on which the pre-fix code answered true in one
   argument order) is unequal in both orders; a 3-4-5 rotation gives a polygon of the box's area. *)
Example c19_nonvacuous :
  let b := Build_BoundingBox Qops 1 2 10 4 (9#10) in
  let b100 := Build_BoundingBox Qops 1 2 100 4 (9#10) in
  let b1 := Build_BoundingBox Qops 1 2 1 4 (9#10) in
  let u := Build_Universal2DBox Qops 3 4 (Some (1#2)) 2 6 1 in
  ubox_to_bbox Qops (bbox_to_ubox Qops b) = Some b /\
  bbox_eq Qops b1 b100 = false /\ bbox_eq Qops b100 b1 = false /\
  bbox_eq Qops b (Build_BoundingBox Qops 1 2 (10 + (1#200000)) 4 (9#10)) = true /\
  Qeq_bool (polygon_area_of (ubox_vertices Qops u (3#5) (4#5))) 72 = true /\
  normalize_angle Qops (-(1)) 3 = 5 /\
  kalman_state_to_ubox Qops (kalman_initiate_mean Qops (Build_Universal2DBox Qops 3 4 (Some (-(1#2))) 2 6 1)) =
    Some (Build_Universal2DBox Qops 3 4 (Some (-(1#2))) 2 6 1).
Proof. vm_compute. repeat split; reflexivity. Qed.
