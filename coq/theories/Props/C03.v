(* C03 - Track lifecycle (positional SORT trackers).  Property theorems only; proofs live in
   Proofs/TrackerC03.v and Proofs/TrackerGc.v.

   For ALL oracles G / D2R, ALL configurations (max_idle >= 0, any shard count > 0), ALL solvers, and ALL
   reachable states / operation sequences (any interleaving of predict - possibly empty -, skip_epochs, wasted,
   idle_tracks, clear_wasted, set_auto_waste, statistics, current_epoch over any scenes; any periodicity). *)
From Coq Require Import List NArith ZArith QArith Bool Permutation.
From Similari Require Import Base.Num Model.Constraints Model.Tracker
     Proofs.TrackerBase Proofs.TrackerPredict Proofs.TrackerInv Proofs.TrackerC01 Proofs.TrackerC03 Proofs.TrackerGc
     Proofs.TrackerSolver Proofs.TrackerVisual.
Import ListNotations.
Open Scope N_scope.

Section C03.
  Variable G : N -> list N -> option Z.
  Variable D2R : N -> list N -> Q.
  Variable solve : solver.
  Variable c : cfg.

  Notation tstep := (tstep G D2R solve c).
  Notation reach := (reach G D2R solve c).
  Notation trun := (trun G D2R solve c).
  Notation trun_from := (trun_from G D2R solve c).

  (* Every detection ever submitted is recorded in exactly one track: the submitted uids are, as a multiset,
     the disjoint union of the detections attached to the tracks that are live, in the wasted store, handed
     out or cleared; no uid occurs twice; track length = number of detections attached. *)
  Theorem conservation :
    forall st, reach st ->
      Permutation (g_submitted st) (concat (map g_dets (all_tracks st)))
      /\ NoDup (concat (map g_dets (all_tracks st)))
      /\ Forall (fun t => t_len t = N.of_nat (length (g_dets t))) (all_tracks st).
  Proof. exact (conservation_lemma G D2R solve c). Qed.

  (* Every track ever created is at any moment in exactly one place: the ids of live, wasted-store, handed-out
     and cleared tracks together are exactly the ids issued so far (1..next_id), each once. *)
  Theorem one_place :
    forall st, reach st ->
      Permutation (map t_id (live st) ++ map t_id (wasted st) ++ map t_id (g_delivered st) ++ map t_id (g_cleared st))
                  (issued (next_id st))
      /\ NoDup (map t_id (live st) ++ map t_id (wasted st) ++ map t_id (g_delivered st) ++ map t_id (g_cleared st)).
  Proof. intros st H. split; [exact (one_place_lemma G D2R solve c st H)|exact (one_place_nodup G D2R solve c st H)]. Qed.

  (* handed out exactly once: the ghost "delivered" list IS the concatenation of all outputs of wasted(), and
     no track id occurs twice in it *)
  Theorem delivered_once :
    forall ops, NoDup (ops_uids ops) ->
      g_delivered (snd (trun ops)) = wasted_outputs (fst (trun ops))
      /\ NoDup (map t_id (wasted_outputs (fst (trun ops)))).
  Proof. exact (delivered_once_lemma G D2R solve c). Qed.

  (* the epoch advances by one per predict call for that scene (empty or not), by n on skip, other scenes and
     other operations leave it alone *)
  Theorem expiry_exact_epochs :
    forall st op s,
      epoch_of (epochs (snd (tstep st op))) s =
      match op with
      | Predict sc _ => if sc =? s then epoch_of (epochs st) s + 1 else epoch_of (epochs st) s
      | Skip sc n => if sc =? s then epoch_of (epochs st) s + n else epoch_of (epochs st) s
      | _ => epoch_of (epochs st) s
      end.
  Proof. exact (epoch_step_lemma G D2R solve c). Qed.

  (* wasted() hands out exactly the tracks (live or already collected) whose scene's epoch exceeds their last
     update epoch by more than max_idle; the others stay live; the wasted store is empty afterwards *)
  Theorem expiry_exact :
    forall st l st', reach st -> tstep st Wasted = (OWasted l, st') ->
      (forall t, In t l <-> In t (live st ++ wasted st) /\ t_last t + max_idle c < epoch_of (epochs st) (t_scene t))
      /\ live st' = filter (fun t => negb (expired c (epochs st) t)) (live st)
      /\ wasted st' = [].
  Proof.
    intros st l st' Hr H. destruct (wasted_exact_lemma G D2R solve c st l st' Hr H) as [A B].
    split; [|exact B]. intro t. rewrite A, expired_ltb, N.ltb_lt. reflexivity.
  Qed.

  (* an expired track is never continued: it keeps its content and no record of the call carries its id *)
  Theorem expired_never_continued :
    solver_sound solve ->
    forall st scene dets recs st',
      reach st -> tstep st (Predict scene dets) = (ORecords recs, st') ->
      forall t, In t (live st ++ wasted st) -> expired c (epochs st') t = true ->
        In t (live st' ++ wasted st') /\ ~ In (t_id t) (map r_id recs).
  Proof. exact (expired_never_continued_lemma G D2R solve c). Qed.

  (* idle_tracks lists exactly the unexpired live tracks of the scene that were not updated in the current epoch *)
  Theorem idle_spec :
    forall st s,
      tstep st (Idle s) =
      (OIdle (map rec_of (filter (fun t => (t_scene t =? s) && negb (expired c (epochs st) t)
                                           && negb (t_last t =? epoch_of (epochs st) s)) (live st))), st).
  Proof. exact (idle_spec_lemma G D2R solve c). Qed.

  (* the active / wasted shard statistics report the sizes of the live store and of the store of collected
     expired tracks, and together account for every track not yet handed out or cleared *)
  Theorem stats_account :
    forall st, reach st -> 0 < shards c ->
      (exists l, tstep st ActiveStats = (OStats l, st) /\ Nsum l = N.of_nat (length (live st)))
      /\ (exists l, tstep st WastedStats = (OStats l, st) /\ Nsum l = N.of_nat (length (wasted st)))
      /\ N.of_nat (length (live st)) + N.of_nat (length (wasted st))
         + N.of_nat (length (g_delivered st)) + N.of_nat (length (g_cleared st)) = next_id st.
  Proof. exact (stats_account_lemma G D2R solve c). Qed.

  (* None of this depends on when the periodic collection runs.  [norm] moves every expired live track to the
     wasted store and forgets counter and period.  Two reachable states with the same normal form give, for
     every operation other than the physical statistics and clear_wasted, the same output, and for every
     operation other than clear_wasted successors with the same normal form.
     clear_wasted is deliberately excluded (DESIGN.md C03): it empties the PHYSICAL wasted store without
     collecting first, so which tracks it discards does depend on collection timing; the property text only
     requires that every track is in exactly one place (one_place) and accounted for (stats_account). *)
  Theorem gc_unobservable :
    forall st1 st2 op, reach st1 -> reach st2 -> norm c st1 = norm c st2 ->
      (gc_output_op op = true -> fst (tstep st1 op) = fst (tstep st2 op))
      /\ (gc_state_op op = true -> norm c (snd (tstep st1 op)) = norm c (snd (tstep st2 op))).
  Proof. exact (gc_unobservable_lemma G D2R solve c). Qed.

  Theorem gc_unobservable_runs :
    forall ops st1 st2, reach st1 -> reach st2 -> norm c st1 = norm c st2 ->
      forallb gc_state_op ops = true ->
      NoDup (ops_uids ops) -> (forall x, In x (ops_uids ops) -> ~ In x (g_submitted st1)) ->
      map obs (fst (trun_from st1 ops)) = map obs (fst (trun_from st2 ops))
      /\ norm c (snd (trun_from st1 ops)) = norm c (snd (trun_from st2 ops)).
  Proof. exact (gc_unobservable_run G D2R solve c). Qed.

  (* the same history under two auto-waste periodicities: identical observable outputs *)
  Theorem periodicity_unobservable :
    forall p1 p2 ops, forallb gc_state_op ops = true -> NoDup (ops_uids ops) ->
      map obs (fst (trun (SetAutoWaste p1 :: ops))) = map obs (fst (trun (SetAutoWaste p2 :: ops))).
  Proof. exact (periodicity_unobservable_lemma G D2R solve c). Qed.
End C03.

Theorem trun_reaches_c03 :
  forall G D2R solve c ops, NoDup (ops_uids ops) -> reach G D2R solve c (snd (trun G D2R solve c ops)).
Proof. exact trun_reach. Qed.

(* THE VISUAL TRACKERS (see Props/C01.v): run by [trun_visual] (their own translated prologue) with ANY association passing
   the interface check.  The lifecycle theorems above hold for them verbatim. *)
Theorem theorems_apply_to_visual_trackers :
  forall G D2R f c ops, NoDup (ops_uids ops) ->
    let solve := given_solver f in
    let st := snd (trun_visual G D2R solve c ops) in
    let outs := fst (trun_visual G D2R solve c ops) in
    (* conservation *)
    (Permutation (g_submitted st) (concat (map g_dets (all_tracks st)))
     /\ NoDup (concat (map g_dets (all_tracks st)))
     /\ Forall (fun t => t_len t = N.of_nat (length (g_dets t))) (all_tracks st))
    (* one place *)
    /\ Permutation (map t_id (live st) ++ map t_id (wasted st) ++ map t_id (g_delivered st) ++ map t_id (g_cleared st))
                   (issued (next_id st))
    (* delivered once *)
    /\ (g_delivered st = wasted_outputs outs /\ NoDup (map t_id (wasted_outputs outs)))
    (* expiry: what wasted() hands out *)
    /\ (forall l st', tstep_visual G D2R solve c st Wasted = (OWasted l, st') ->
          (forall t, In t l <-> In t (live st ++ wasted st) /\ t_last t + max_idle c < epoch_of (epochs st) (t_scene t))
          /\ wasted st' = [])
    (* expired never continued *)
    /\ (forall scene dets recs st', tstep_visual G D2R solve c st (Predict scene dets) = (ORecords recs, st') ->
          forall t, In t (live st ++ wasted st) -> expired c (epochs st') t = true ->
            In t (live st' ++ wasted st') /\ ~ In (t_id t) (map r_id recs))
    (* epochs *)
    /\ (forall op s, epoch_of (epochs (snd (tstep_visual G D2R solve c st op))) s =
                     match op with
                     | Predict sc _ => if sc =? s then epoch_of (epochs st) s + 1 else epoch_of (epochs st) s
                     | Skip sc n => if sc =? s then epoch_of (epochs st) s + n else epoch_of (epochs st) s
                     | _ => epoch_of (epochs st) s
                     end)
    (* idle *)
    /\ (forall s, tstep_visual G D2R solve c st (Idle s) =
                  (OIdle (map rec_of (filter (fun t => (t_scene t =? s) && negb (expired c (epochs st) t)
                                                       && negb (t_last t =? epoch_of (epochs st) s)) (live st))), st))
    (* collection timing / periodicity unobservable *)
    /\ (forall p1 p2 ops', forallb gc_state_op ops' = true -> NoDup (ops_uids ops') ->
          map obs (fst (trun_visual G D2R solve c (SetAutoWaste p1 :: ops'))) =
          map obs (fst (trun_visual G D2R solve c (SetAutoWaste p2 :: ops')))).
Proof.
  intros G D2R f c ops Hnd. cbn zeta. rewrite !trun_visual_eq.
  pose proof (trun_reaches_c03 G D2R (given_solver f) c ops Hnd) as Hr.
  split; [exact (conservation G D2R _ c _ Hr)|].
  split; [exact (proj1 (one_place G D2R _ c _ Hr))|].
  split; [exact (delivered_once G D2R _ c ops Hnd)|].
  split.
  { intros l st' H. rewrite tstep_visual_eq in H. destruct (expiry_exact G D2R _ c _ _ _ Hr H) as [A [_ B]]. split; assumption. }
  split.
  { intros scene dets recs st' H. rewrite tstep_visual_eq in H.
    exact (expired_never_continued G D2R _ c (given_solver_sound_lemma f) _ _ _ _ _ Hr H). }
  split; [intros op s; rewrite tstep_visual_eq; apply expiry_exact_epochs|].
  split; [intro s; rewrite tstep_visual_eq; apply idle_spec|].
  intros p1 p2 ops' Hall Hnd'. rewrite !trun_visual_eq. apply periodicity_unobservable; assumption.
Qed.

(* Non-vacuity.  max_idle = 0: the track started in call 1 expires with the (empty) call 2 and, with the default
   periodicity 100, stays UNCOLLECTED in the live store while idle / statistics / wasted observe the tracker;
   with periodicity 0 it is collected by the prologue of the next predict (a call for another scene).  The observable outputs coincide, the physical statistics differ. *)
Definition ex3_cfg : cfg := {| max_idle := 0; hist_len := 1; shards := 2; thr := 300000%Z; table := [] |}.
Definition ex3_ops (p : N) : list top :=
  [SetAutoWaste p; Predict 4 [{| d_uid := 1; d_custom := None |}]; Predict 4 []; Predict 9 []; Idle 4; WastedStats; ActiveStats; Wasted;
   Predict 4 [{| d_uid := 2; d_custom := None |}]; Skip 4 3; CurrentEpoch 4; Wasted].

Example c03_nonvacuous :
  let run p := fst (trun (fun _ _ => Some 900000%Z) (fun _ _ => 0%Q) best_matching ex3_cfg (ex3_ops p)) in
  map (obs) (run 100) = map obs (run 0)
  /\ nth 5 (run 100) OUnit = OStats [0; 0] /\ nth 5 (run 0) OUnit = OStats [0; 1]
  /\ nth 6 (run 100) OUnit = OStats [0; 1] /\ nth 6 (run 0) OUnit = OStats [0; 0]
  /\ nth 4 (run 100) OUnit = OIdle []
  /\ map t_id (wasted_outputs (run 100)) = [1; 2]
  /\ nth 10 (run 100) OUnit = OEpoch 6.
Proof. vm_compute. repeat split; reflexivity. Qed.
