(* C05 - Independence of shard count and thread schedule.
   Property theorems only; model in Model/DistProto.v (Sections Dist and Predict), proofs in
   Proofs/DistProtoProofs.v.

   What is proved here (for ALL user callbacks, stores, candidate batches, histories, shard counts >= 1 and
   ALL complete interleavings of the store's workers):
     - the content of the sharded store read as a finite map does not depend on the number of shards,
     - the multiset of distances delivered by a query does not depend on shard count or schedule (C10),
     - hence, for streams free of exact ties, a predict call and a whole history of predict calls report the same
       records (ids included: [commit] issues them) and reach the same tracker state for every shard count and
       every schedule.
   For SORT and VisualSORT the voting assumption is discharged below (Sections C05_Sort, C05_Visual). In the generic theorems it is a
   hypothesis: on tie-free streams the voting engines are invariant under permutation of
   the stream; that is proved about the voting models in the developments of C17/C02 (another builder),
   [winners_perm_invariant] is exactly their statement. The sequential commit is a function of the abstract
   store (the store refines a finite map whatever the shard count: C09). *)
From Coq Require Import List NArith Bool Arith Permutation.
From Coq Require Import ZArith.
From Similari Require Import Model.DistProto Proofs.DistProtoProofs Model.Assign Proofs.AssignProofs Proofs.AssignPerm Proofs.C05Sort.
From Coq Require Import QArith.
From Similari Require Import Model.Voting Proofs.VotingProofs Proofs.C05Visual.
Local Close Scope Q_scope.
Import ListNotations.

Section C05.
  Variable track : Type.
  Variable OBS : Type.
  Variable MV : Type.
  Variable tid : track -> N.
  Variable compatible : track -> track -> bool.
  Variable baked : track -> status.
  Variable observations : track -> N -> option (list OBS).
  Variable metric : N -> track -> OBS -> track -> OBS -> option MV.
  Variable postprocess : track -> list (res MV) -> list (res MV).
  Variable cls : N.
  Variable ob : bool.

  (* the store's placement rule covers the same tracks for every shard count *)
  Theorem store_abs_shard_independent :
    forall n1 n2 (all : list track), 0 < n1 -> 0 < n2 ->
      Permutation (concat (distribute track tid n1 all)) (concat (distribute track tid n2 all)).
  Proof.
    intros n1 n2 all H1 H2.
    rewrite (concat_distribute track tid n1 all H1), (concat_distribute track tid n2 all H2). reflexivity.
  Qed.

  Theorem dist_query_schedule_independent :
    forall n1 n2 (all cands : list track) s1 s2 st1 st2, 0 < n1 -> 0 < n2 ->
      drun track OBS MV tid compatible baked observations metric postprocess cls ob
           (foreign_init track MV (distribute track tid n1 all) cands) s1 = Some st1 -> dfinal track MV st1 = true ->
      drun track OBS MV tid compatible baked observations metric postprocess cls ob
           (foreign_init track MV (distribute track tid n2 all) cands) s2 = Some st2 -> dfinal track MV st2 = true ->
      Permutation (concat (got_ok st1)) (concat (got_ok st2)) /\
      Permutation (concat (got_err st1)) (concat (got_err st2)).
  Proof.
    intros n1 n2 all cands s1 s2 st1 st2 H1 H2 R1 F1 R2 F2.
    exact (query_shard_independent_lemma track OBS MV tid compatible baked observations metric postprocess cls ob
             _ _ cands s1 s2 st1 st2 (store_abs_shard_independent n1 n2 all H1 H2) R1 F1 R2 F2).
  Qed.

  Variable TS : Type.
  Variable IN : Type.
  Variable OUT : Type.
  Variable W : Type.
  Variable store_of : TS -> list track.
  Variable cands_of : TS -> IN -> TS * list track.
  Variable winners : list (res MV) -> W.
  Variable commit : TS -> list track -> W -> TS * OUT.
  Variable tie_free : list (res MV) -> Prop.

  Hypothesis winners_perm_invariant :
    forall s1 s2, Permutation s1 s2 -> tie_free s1 -> winners s1 = winners s2.

  Notation PREDICT := (predict_rel track OBS MV tid compatible baked observations metric postprocess cls ob
                                   TS IN OUT W store_of cands_of winners commit).
  Notation HISTORY := (history_rel track OBS MV tid compatible baked observations metric postprocess cls ob
                                   TS IN OUT W store_of cands_of winners commit).

  Theorem predict_shard_schedule_independent :
    forall n1 n2 ts inp t1 o1 t2 o2, 0 < n1 -> 0 < n2 ->
      tie_free_call track OBS MV tid compatible baked observations metric postprocess cls ob TS IN store_of cands_of tie_free ts inp ->
      PREDICT n1 ts inp t1 o1 -> PREDICT n2 ts inp t2 o2 -> t1 = t2 /\ o1 = o2.
  Proof.
    exact (predict_independent_lemma track OBS MV tid compatible baked observations metric postprocess cls ob
             TS IN OUT W store_of cands_of winners commit tie_free winners_perm_invariant).
  Qed.

  Theorem history_shard_schedule_independent :
    forall n1 n2 ins ts t1 os1 t2 os2, 0 < n1 -> 0 < n2 ->
      tie_free_history track OBS MV tid compatible baked observations metric postprocess cls ob
                       TS IN OUT W store_of cands_of winners commit tie_free n1 ts ins ->
      HISTORY n1 ts ins t1 os1 -> HISTORY n2 ts ins t2 os2 -> t1 = t2 /\ os1 = os2.
  Proof.
    exact (history_independent_lemma track OBS MV tid compatible baked observations metric postprocess cls ob
             TS IN OUT W store_of cands_of winners commit tie_free winners_perm_invariant).
  Qed.
End C05.

(* ---------------------------------------------------------------------------------------------------------
   SORT (Hungarian voting): the hypothesis [winners_perm_invariant] is discharged by the voting development
   (Props/C17.v hungarian_winners_perm_invariant, Proofs/AssignPerm.v). What remains are the hypotheses of that
   theorem: a positive threshold, the Kuhn-Munkres oracle returns an optimal assignment on every padded matrix
   ([km_ok]; the oracle itself is not modelled, DESIGN section 5), and each call is free of exact ties
   ([sort_tie_free]: positive ids, candidate ids distinct from track ids, one metric per (candidate, track) pair,
   a unique optimal gated assignment).  [sort_winners_of] is SortVoting::winners on the delivered stream with its
   answer in canonical order; [weight_of] is the integer weight SortVoting derives from a metric value. *)
Section C05_Sort.
  Variable track : Type.
  Variable OBS : Type.
  Variable MV : Type.
  Variable tid : track -> N.
  Variable compatible : track -> track -> bool.
  Variable baked : track -> status.
  Variable observations : track -> N -> option (list OBS).
  Variable metric : N -> track -> OBS -> track -> OBS -> option MV.
  Variable postprocess : track -> list (res MV) -> list (res MV).
  Variable cls : N.
  Variable ob : bool.
  Variable TS : Type.
  Variable IN : Type.
  Variable OUT : Type.
  Variable store_of : TS -> list track.
  Variable cands_of : TS -> IN -> TS * list track.
  Variable commit : TS -> list track -> option (list (N * N)) -> TS * OUT.
  Variable weight_of : MV -> Z.
  Variable km : matrix -> list nat.
  Variable thr : Z.

  Notation WINNERS := (sort_winners_of MV weight_of km thr).
  Notation TIEFREE := (sort_tie_free MV weight_of thr).
  Notation PREDICT := (predict_rel track OBS MV tid compatible baked observations metric postprocess cls ob
                                   TS IN OUT (option (list (N * N))) store_of cands_of WINNERS commit).
  Notation HISTORY := (history_rel track OBS MV tid compatible baked observations metric postprocess cls ob
                                   TS IN OUT (option (list (N * N))) store_of cands_of WINNERS commit).

  Theorem predict_shard_schedule_independent_sort :
    forall n1 n2 ts inp t1 o1 t2 o2,
      (0 < thr)%Z -> km_ok km -> 0 < n1 -> 0 < n2 ->
      tie_free_call track OBS MV tid compatible baked observations metric postprocess cls ob TS IN store_of cands_of TIEFREE ts inp ->
      PREDICT n1 ts inp t1 o1 -> PREDICT n2 ts inp t2 o2 -> t1 = t2 /\ o1 = o2.
  Proof.
    exact (predict_independent_sort_lemma track OBS MV tid compatible baked observations metric postprocess cls ob
             TS IN OUT store_of cands_of commit weight_of km thr).
  Qed.

  Theorem history_shard_schedule_independent_sort :
    forall n1 n2 ins ts t1 os1 t2 os2,
      (0 < thr)%Z -> km_ok km -> 0 < n1 -> 0 < n2 ->
      tie_free_history track OBS MV tid compatible baked observations metric postprocess cls ob
                       TS IN OUT (option (list (N * N))) store_of cands_of WINNERS commit TIEFREE n1 ts ins ->
      HISTORY n1 ts ins t1 os1 -> HISTORY n2 ts ins t2 os2 -> t1 = t2 /\ os1 = os2.
  Proof.
    exact (history_independent_sort_lemma track OBS MV tid compatible baked observations metric postprocess cls ob
             TS IN OUT store_of cands_of commit weight_of km thr).
  Qed.
End C05_Sort.

(* ---------------------------------------------------------------------------------------------------------
   VisualSORT (appearance stage first, Hungarian positional stage on the rest): the hypothesis is discharged by
   Props/C17.v visual_winners_perm_invariant (Proofs/VotingProofs.v). Remaining hypotheses: positive threshold,
   [km_ok] for the positional stage's oracle, and tie-freeness of each call ([visual_tie_free]: the appearance
   stage compares pairwise distinct keys, the positional stage on the remaining pairs is hung_tie_free).
   [weight_of] / [feat_of] read the positional weight and the feature distance off a metric value. *)
Section C05_Visual.
  Variable track : Type.
  Variable OBS : Type.
  Variable MV : Type.
  Variable tid : track -> N.
  Variable compatible : track -> track -> bool.
  Variable baked : track -> status.
  Variable observations : track -> N -> option (list OBS).
  Variable metric : N -> track -> OBS -> track -> OBS -> option MV.
  Variable postprocess : track -> list (res MV) -> list (res MV).
  Variable cls : N.
  Variable ob : bool.
  Variable TS : Type.
  Variable IN : Type.
  Variable OUT : Type.
  Variable store_of : TS -> list track.
  Variable cands_of : TS -> IN -> TS * list track.
  Variable commit : TS -> list track -> option (list (N * (N * vtype))) -> TS * OUT.
  Variable weight_of : MV -> option Z.
  Variable feat_of : MV -> option Q.
  Variable km : matrix -> list nat.
  Variable thr : Z.
  Variable maxd : Q.
  Variable minv : nat.

  Notation WT := (option (list (N * (N * vtype)))).
  Notation WINNERS := (visual_winners_of MV weight_of feat_of km thr maxd minv).
  Notation TIEFREE := (visual_tie_free MV weight_of feat_of thr maxd minv).
  Notation PREDICT := (predict_rel track OBS MV tid compatible baked observations metric postprocess cls ob
                                   TS IN OUT WT store_of cands_of WINNERS commit).
  Notation HISTORY := (history_rel track OBS MV tid compatible baked observations metric postprocess cls ob
                                   TS IN OUT WT store_of cands_of WINNERS commit).

  Theorem predict_shard_schedule_independent_visual :
    forall n1 n2 ts inp t1 o1 t2 o2,
      (0 < thr)%Z -> km_ok km -> 0 < n1 -> 0 < n2 ->
      tie_free_call track OBS MV tid compatible baked observations metric postprocess cls ob TS IN store_of cands_of TIEFREE ts inp ->
      PREDICT n1 ts inp t1 o1 -> PREDICT n2 ts inp t2 o2 -> t1 = t2 /\ o1 = o2.
  Proof.
    exact (predict_independent_visual_lemma track OBS MV tid compatible baked observations metric postprocess cls ob
             TS IN OUT store_of cands_of commit weight_of feat_of km thr maxd minv).
  Qed.

  Theorem history_shard_schedule_independent_visual :
    forall n1 n2 ins ts t1 os1 t2 os2,
      (0 < thr)%Z -> km_ok km -> 0 < n1 -> 0 < n2 ->
      tie_free_history track OBS MV tid compatible baked observations metric postprocess cls ob
                       TS IN OUT WT store_of cands_of WINNERS commit TIEFREE n1 ts ins ->
      HISTORY n1 ts ins t1 os1 -> HISTORY n2 ts ins t2 os2 -> t1 = t2 /\ os1 = os2.
  Proof.
    exact (history_independent_visual_lemma track OBS MV tid compatible baked observations metric postprocess cls ob
             TS IN OUT store_of cands_of commit weight_of feat_of km thr maxd minv).
  Qed.
End C05_Visual.

(* Non-vacuity: the same query on a 1-shard and on a 3-shard placement of the same four tracks, different
   worker orders, delivers the same multiset (here: the same number of results, not all empty). *)
Example c05_nonvacuous :
  let t := fun id v => DistInst.mkT id 0 1 [(0%N, [v])] in
  let all := [t 1%N 1%N; t 2%N 2%N; t 3%N 5%N; t 4%N 6%N] in
  let c := DistInst.mkT 9%N 0 1 [(0%N, [2%N; 3%N])] in
  exists r1 r3,
    DistInst.run_foreign (distribute DistInst.trk DistInst.t_id 1 all) [c] 0 false
       [DEnq 0; DExec 0; DRecvOk; DRecvErr] = Some (true, r1, [[]]) /\
    DistInst.run_foreign (distribute DistInst.trk DistInst.t_id 3 all) [c] 0 false
       [DEnq 0; DEnq 1; DEnq 2; DExec 2; DExec 0; DExec 1; DRecvOk; DRecvOk; DRecvOk; DRecvErr; DRecvErr; DRecvErr]
       = Some (true, r3, [[]; []; []]) /\
    length (concat r1) = length (concat r3) /\ concat r1 <> [].
Proof. do 2 eexists. split; [vm_compute; reflexivity|]. split; [vm_compute; reflexivity|]. split; [reflexivity|discriminate]. Qed.
