(* C20 - Spatio-temporal constraints are a pure, monotone filter on candidate pairs.
   Property theorems only; proofs live in Proofs/ConstraintsProofs.v. *)
From Coq Require Import List NArith QArith Bool.
From Similari Require Import Base.Num Model.Constraints Proofs.ConstraintsProofs Proofs.DistProofs.
From SimilariGen Require Import Consts Scalar ScalarBox.
Import ListNotations.

(* For every configuration history [adds] (any number of add_constraints calls, any lengths, repeated gaps
   allowed) and every probe: the limit applied is the FIRST one configured for the LEAST configured gap
   that is not below the probe's gap (none if there is none), and the pair is admitted exactly when its
   distance does not exceed that limit. *)
Theorem validate_exact :
  forall (adds : list table) (t : table) (delta : N) (dist : Q),
    run_adds [] adds = Some t -> (0 <= dist)%Q ->
    exists r, applicable (concat adds) delta r /\
              validate t delta dist = Some (match r with None => true | Some m => Qle_bool dist m end).
Proof. exact validate_spec_lemma. Qed.

(* [applicable] determines the limit uniquely, so the statement above is not satisfiable by two answers. *)
Theorem applicable_unique :
  forall all delta r1 r2, applicable all delta r1 -> applicable all delta r2 -> r1 = r2.
Proof. exact applicable_functional. Qed.

(* Admission is monotone in the distance. *)
Theorem validate_monotone :
  forall t delta d d', (0 <= d)%Q -> (d <= d')%Q ->
    validate t delta d' = Some true -> validate t delta d = Some true.
Proof. exact validate_monotone_lemma. Qed.

(* Constraints only remove pairs: the empty table admits everything. *)
Theorem no_constraints_admit_all :
  forall delta d, (0 <= d)%Q -> validate [] delta d = Some true.
Proof. exact validate_empty_lemma. Qed.

(* The documented rejections (panics) are exactly the guarded ones. *)
Theorem validate_rejects_negative :
  forall t delta d, (d < 0)%Q -> validate t delta d = None.
Proof. exact validate_negative_panics. Qed.

Theorem add_rejects_nonpositive :
  forall t cs e, In e cs -> (snd e <= 0)%Q -> add_constraints t cs = None.
Proof. exact add_nonpositive_panics. Qed.

Theorem add_accepts_positive :
  forall t cs, (forall e, In e cs -> (0 < snd e)%Q) -> exists t', add_constraints t cs = Some t'.
Proof. exact add_positive_ok. Qed.

(* The distance handed to validate by the trackers (Universal2DBox::dist_in_2r, translated from the source on every
   run; squared, the two bounding radii being inputs since get_radius takes a square root): the squared centre
   distance in units of the squared SUM OF THE TWO RADII (plus EPS), symmetric in the two boxes. *)
Theorem dist_in_2r_is_centre_distance_over_radius_sum :
  forall (l r : Universal2DBox Qops) (rl rr : Q),
    (ubox_dist_in_2r_sq_r Qops l r rl rr ==
     ((cx l - cx r) * (cx l - cx r) + (cy l - cy r) * (cy l - cy r)) / ((rl + rr) * (rl + rr) + EPS))%Q.
Proof. exact dist_in_2r_sq_formula. Qed.

Theorem dist_in_2r_symmetric :
  forall (l r : Universal2DBox Qops) (rl rr : Q),
    (ubox_dist_in_2r_sq_r Qops l r rl rr == ubox_dist_in_2r_sq_r Qops r l rr rl)%Q.
Proof. exact dist_in_2r_sq_sym. Qed.

Theorem dist_in_2r_zero_iff_same_centre :
  forall (l r : Universal2DBox Qops) (rl rr : Q), (0 <= rl)%Q -> (0 <= rr)%Q ->
    ((ubox_dist_in_2r_sq_r Qops l r rl rr == 0)%Q <-> (cx l == cx r /\ cy l == cy r)%Q).
Proof. exact dist_in_2r_sq_zero_iff_same_centre. Qed.

(* Non-vacuity: the repository's own unit-test table, built by two calls with repeated gaps. *)
Example c20_nonvacuous :
  exists t, run_adds [] [[(1%N, 1#2); (2%N, 1); (3%N, 2); (4%N, 4)]; [(3%N, 5#2); (4%N, 9#2); (7%N, 17#2)]] = Some t
            /\ validate t 3 (9#4) = Some false      (* first-configured limit 2 for gap 3 wins over 2.5 *)
            /\ validate t 6 7 = Some true           (* least configured gap >= 6 is 7 *)
            /\ validate t 9 100 = Some true.        (* none configured: admitted *)
Proof. eexists; repeat split; vm_compute; reflexivity. Qed.
