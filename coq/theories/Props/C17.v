(* C17 - voting engines. Property theorems only; proofs live in Proofs/VotingProofs.v, Proofs/AssignProofs.v. *)
From Coq Require Import List NArith ZArith QArith Bool.
From Similari Require Import Base.Num Model.Assign Model.Voting Proofs.AssignProofs Proofs.VotingProofs.
Import ListNotations.

Example c17_nonvacuous_topn :
  topn_voting 5 (8#25) 1 [mk 0 1 (Some (1#5)); mk 0 1 (Some (2#5))] = [(0%N, [(1%N, 1#5)])].
Proof. vm_compute. reflexivity. Qed.
