(* C17 - The voting engines turn a stream of (query, track, distance) results into winners in a way that does not
   depend on the order of the stream.
   Property theorems only; proofs live in Proofs/VotingProofs.v (top-N, best fit) and Proofs/AssignProofs.v (Hungarian).

   Reading guide.  s : list dist is the stream; counted_dists maxd q t s are the distances of the pair (q, t) that do not
   exceed max_distance, in stream order ("the counted distances"); max_dist s is the largest distance seen in the whole
   stream (or -1 for a stream without distances); qsum md c = sum over c of (md - e).  A result is a list of
   (query, list of (track, weight)); [assoc] reads it as a finite map (the Rust code returns a HashMap).
   cands maxd minv s are the (query, track, weight) triples with at least min_votes (and at least one) counted distance.
   Weights are canonical rationals, so "=" on weights is equality of numbers. *)
From Coq Require Import List NArith ZArith QArith Bool Permutation Sorted.
From Similari Require Import Base.Num Model.Assign Model.Voting Proofs.AssignProofs Proofs.AssignPerm Proofs.VotingProofs.
Import ListNotations.
Local Close Scope Q_scope.
Local Open Scope nat_scope.

(* ---- top-N voting ------------------------------------------------------------------------------------------- *)

(* at most N tracks per query *)
Theorem topn_at_most_n :
  forall n maxd minv s q l, In (q, l) (topn_voting n maxd minv s) -> length l <= n.
Proof. exact topn_at_most_n_lemma. Qed.

(* only tracks having at least min_votes (and at least one) distances not exceeding max_distance *)
Theorem topn_min_votes :
  forall n maxd minv s q l t w, In (q, l) (topn_voting n maxd minv s) -> In (t, w) l ->
    minv <= length (counted_dists maxd q t s) /\ 1 <= length (counted_dists maxd q t s).
Proof. exact topn_min_votes_lemma. Qed.

(* ordered by decreasing weight *)
Theorem topn_sorted :
  forall n maxd minv s q l, In (q, l) (topn_voting n maxd minv s) ->
    StronglySorted (fun a b => (snd b <= snd a)%Q) l.
Proof. exact topn_sorted_lemma. Qed.

(* the weight is the sum over the counted distances of (largest distance seen - distance) ... *)
Theorem weight_formula :
  forall n maxd minv s q l t w, In (q, l) (topn_voting n maxd minv s) -> In (t, w) l ->
    (w == qsum (max_dist s) (counted_dists maxd q t s))%Q.
Proof. exact weight_formula_lemma. Qed.

(* ... where max_dist really is the largest distance of the stream: an upper bound that is attained (or -1) *)
Theorem max_dist_is_largest :
  forall s, (forall d e, In d s -> fd d = Some e -> (e <= max_dist s)%Q) /\
            (max_dist s = (-1 # 1)%Q \/ exists d, In d s /\ fd d = Some (max_dist s)).
Proof. exact max_dist_is_largest_lemma. Qed.

(* "top": an eligible track of the query that is not listed is not heavier than any listed one, and the list is full;
   every query with an eligible track has an entry; every query at most once *)
Theorem topn_takes_heaviest :
  forall n maxd minv s q l t w, In (q, l) (topn_voting n maxd minv s) -> In (q, t, w) (cands maxd minv s) -> ~ In (t, w) l ->
    length l = n /\ forall t' w', In (t', w') l -> (w <= w')%Q.
Proof. exact topn_takes_heaviest_lemma. Qed.

Theorem topn_query_listed :
  forall n maxd minv s q t w, In (q, t, w) (cands maxd minv s) -> exists l, In (q, l) (topn_voting n maxd minv s).
Proof. exact topn_query_listed_lemma. Qed.

Theorem topn_one_entry_per_query : forall n maxd minv s, NoDup (map fst (topn_voting n maxd minv s)).
Proof. exact topn_keys_NoDup. Qed.

(* what "eligible" means: cands is exactly the set of pairs with enough counted distances, with the weight above *)
Theorem cands_characterised :
  forall maxd minv s q t w, In (q, t, w) (cands maxd minv s) <->
    counted_dists maxd q t s <> [] /\ minv <= length (counted_dists maxd q t s)
    /\ w = weight (max_dist s) (counted_dists maxd q t s).
Proof. exact cands_In. Qed.

(* ORDER INDEPENDENCE: for any permutation of the stream, if no two eligible tracks of one query have equal weights,
   the result is the same finite map *)
Theorem topn_perm_invariant :
  forall n maxd minv s s', Permutation s s' -> topn_distinct maxd minv s ->
    forall q, assoc N.eqb q (topn_voting n maxd minv s) = assoc N.eqb q (topn_voting n maxd minv s').
Proof. exact topn_perm_invariant_lemma. Qed.

(* ---- best-fit voting ---------------------------------------------------------------------------------------- *)
(* ids_disjoint s: query ids and track ids are different numbers (otherwise "the query itself" cannot be told from a
   track).  An entry (t, w) of query q with t <> q is an award of track t; an entry (q, w) is a lost claim. *)

(* each track is awarded to at most one query *)
Theorem bestfit_one_winner_per_track :
  forall maxd minv s q1 q2 l1 l2 t w1 w2, ids_disjoint s ->
    In (q1, l1) (best_fit_voting maxd minv s) -> In (q2, l2) (best_fit_voting maxd minv s) ->
    In (t, w1) l1 -> In (t, w2) l2 -> t <> q1 -> t <> q2 -> q1 = q2 /\ w1 = w2.
Proof. exact bestfit_one_winner_per_track_lemma. Qed.

(* ... the one with the greatest weight among all queries eligible for it (and the awardee is itself eligible) *)
Theorem bestfit_winner_is_max :
  forall maxd minv s q l t w, ids_disjoint s ->
    In (q, l) (best_fit_voting maxd minv s) -> In (t, w) l -> t <> q ->
    In (q, t, w) (cands maxd minv s) /\ forall q' w', In (q', t, w') (cands maxd minv s) -> (w' <= w)%Q.
Proof. exact bestfit_winner_is_max_lemma. Qed.

(* every claimed track is awarded to somebody; every eligible pair is answered (award or lost claim) with its weight;
   nothing else is in the result; per query the entries are ordered by decreasing weight *)
Theorem bestfit_track_awarded :
  forall maxd minv s q t w, In (q, t, w) (cands maxd minv s) ->
    exists q' l' w', In (q', l') (best_fit_voting maxd minv s) /\ In (t, w') l' /\ In (q', t, w') (cands maxd minv s).
Proof. exact bestfit_track_awarded_lemma. Qed.

Theorem bestfit_every_candidate_answered :
  forall maxd minv s q t w, In (q, t, w) (cands maxd minv s) ->
    exists l, In (q, l) (best_fit_voting maxd minv s) /\ (In (t, w) l \/ In (q, w) l).
Proof. exact bestfit_every_candidate_answered_lemma. Qed.

Theorem bestfit_entry_origin :
  forall maxd minv s q l t w, In (q, l) (best_fit_voting maxd minv s) -> In (t, w) l ->
    In (q, t, w) (cands maxd minv s) \/ (t = q /\ exists t0, In (q, t0, w) (cands maxd minv s)).
Proof. exact bestfit_entry_origin_lemma. Qed.

Theorem bestfit_sorted :
  forall maxd minv s q l, In (q, l) (best_fit_voting maxd minv s) -> StronglySorted (fun a b => (snd b <= snd a)%Q) l.
Proof. exact bestfit_sorted_lemma. Qed.

(* ORDER INDEPENDENCE: for any permutation of the stream, if no two COMPARABLE eligible pairs (same query or same
   track) have equal weights, the result is the same finite map *)
Theorem bestfit_perm_invariant :
  forall maxd minv s s', Permutation s s' -> bestfit_distinct_cmp maxd minv s ->
    forall q, assoc N.eqb q (best_fit_voting maxd minv s) = assoc N.eqb q (best_fit_voting maxd minv s').
Proof. exact bestfit_perm_invariant_cmp_lemma. Qed.

(* ... and if all eligible pairs have pairwise distinct weights, even the same list *)
Theorem bestfit_perm_invariant_list :
  forall maxd minv s s', Permutation s s' -> bestfit_distinct maxd minv s ->
    best_fit_voting maxd minv s = best_fit_voting maxd minv s'.
Proof. exact bestfit_perm_invariant_lemma. Qed.

(* ---- Hungarian voting (SortVoting) ---------------------------------------------------------------------------- *)
(* km is the kuhn_munkres oracle, assumed to return an optimal assignment of the one matrix it is given; thr > 0;
   query ids and track ids disjoint; the declared number of tracks covers the tracks of the stream. *)

(* for every query that appears in the stream: exactly one entry, a track of the stream or the query itself *)
Theorem hungarian_total :
  forall (km : matrix -> list nat) thr n cols s W,
    (0 < thr)%Z -> ids_disj s -> length (tos s) <= cols ->
    (forall m idx, pad_matrix thr n cols s = Some (m, idx) ->
                   is_assignment (length m) (ncols m) (km m) /\ optimal m (km m)) ->
    sort_voting km thr n cols s = Some W ->
    forall f, In f (froms s) ->
      exists t, In (f, t) W /\ (t = f \/ In t (tos s)) /\ forall t', In (f, t') W -> t' = t.
Proof. exact hungarian_total_lemma. Qed.

(* and no track twice (nor anything for a query that is not in the stream) *)
Theorem hungarian_no_track_twice :
  forall (km : matrix -> list nat) thr n cols s W,
    (0 < thr)%Z -> ids_disj s -> length (tos s) <= cols ->
    (forall m idx, pad_matrix thr n cols s = Some (m, idx) ->
                   is_assignment (length m) (ncols m) (km m) /\ optimal m (km m)) ->
    sort_voting km thr n cols s = Some W -> NoDup (map snd W).
Proof. exact hungarian_no_track_twice_lemma. Qed.

Theorem hungarian_only_queries :
  forall (km : matrix -> list nat) thr n cols s W,
    (0 < thr)%Z -> ids_disj s -> length (tos s) <= cols ->
    (forall m idx, pad_matrix thr n cols s = Some (m, idx) ->
                   is_assignment (length m) (ncols m) (km m) /\ optimal m (km m)) ->
    sort_voting km thr n cols s = Some W -> forall f t, In (f, t) W -> In f (froms s).
Proof. exact hungarian_only_queries_lemma. Qed.

(* ORDER INDEPENDENCE of Hungarian voting.  Streams s1, s2 that are permutations of one another, no repeated
   (from, to) pair (a repeated pair is overwritten by its last occurrence, which is order dependent by construction),
   thr > 0, disjoint id spaces, declared sizes adequate (they may even differ between the two calls), and a UNIQUE optimum
   ([unique_opt]: any two gated answers of s1 that reach the exhaustive optimum best_partial are equal).  Then for ANY two
   oracles that return optimal assignments of the two padded matrices, the winners are the same finite map:
   the same set of (query, track-or-itself) entries, a permutation of one another, and W1 is W2 re-ordered to the query
   order of s1. *)
Theorem hungarian_perm_invariant :
  forall (km1 km2 : matrix -> list nat) thr n1 c1 n2 c2 s1 s2 W1 W2,
    (0 < thr)%Z -> Permutation s1 s2 -> pairs_nodup s1 -> ids_disj s1 ->
    length (tos s1) <= c1 -> length (tos s1) <= c2 -> unique_opt thr s1 ->
    km_ok_on km1 thr n1 c1 s1 -> km_ok_on km2 thr n2 c2 s2 ->
    sort_voting km1 thr n1 c1 s1 = Some W1 -> sort_voting km2 thr n2 c2 s2 = Some W2 ->
    Permutation W1 W2 /\ (forall e, In e W1 <-> In e W2) /\ W1 = reorder (froms s1) W2.
Proof. exact hungarian_perm_invariant_lemma. Qed.

(* well-formed streams never panic (ids > 0, disjoint id spaces, declared sizes cover the stream), so the hypotheses
   "= Some W" above are not restrictive *)
Theorem hungarian_no_panic :
  forall km thr n cols s,
    (0 < thr)%Z -> ids_pos s -> ids_disj s -> length (froms s) <= n -> length (tos s) <= cols ->
    km_ok_on km thr n cols s -> exists W, sort_voting km thr n cols s = Some W.
Proof. exact sort_winners_succeeds. Qed.

(* the shape C05 needs (Model/DistProto.v, Section Predict: forall s1 s2, Permutation s1 s2 -> tie_free s1 ->
   winners s1 = winners s2): a TOTAL winners function with results in canonical form (sorted by query id), Leibniz equal *)
Theorem hungarian_winners_perm_invariant :
  forall km thr, (0 < thr)%Z -> km_ok km ->
    forall s1 s2, Permutation s1 s2 -> hung_tie_free thr s1 -> hung_winners km thr s1 = hung_winners km thr s2.
Proof. exact hung_winners_perm_invariant_lemma. Qed.

(* ... and hung_winners (declared sizes taken from the stream) is what SortVoting answers for ANY adequate declared sizes *)
Theorem hungarian_sizes_irrelevant :
  forall km thr n cols s W,
    (0 < thr)%Z -> km_ok km -> hung_tie_free thr s -> length (tos s) <= cols ->
    sort_voting km thr n cols s = Some W -> hung_winners km thr s = Some (canon_w W).
Proof. exact hung_winners_any_sizes_lemma. Qed.

(* ---- Visual voting (VisualVoting::winners: best fit on the feature distances, then SortVoting on what remains) ------- *)
(* s : list vd carries per entry the feature distance and the integer positional weight.  vis_feature = the Visual
   entries (every query with an eligible visual claim -> the track of its heaviest claim if that claim won, else itself);
   vis_rem = the sub-stream handed to the positional stage.  visual_winners is TOTAL-with-option (None = panic, which does
   not happen on tie-free streams) and canonical (sorted by query id): equality is Leibniz.
   vis_tie_free = distinct weights among comparable best-fit claims (as in bestfit_perm_invariant) and hung_tie_free of
   the remaining positional sub-stream. *)

(* ORDER INDEPENDENCE, in the shape C05 needs *)
Theorem visual_winners_perm_invariant :
  forall km thr maxd minv, (0 < thr)%Z -> km_ok km ->
    forall s1 s2, Permutation s1 s2 -> vis_tie_free thr maxd minv s1 ->
      visual_winners km thr maxd minv s1 = visual_winners km thr maxd minv s2.
Proof. exact visual_winners_perm_invariant_lemma. Qed.

(* a visually awarded track goes to its heaviest claimant, and it is that query's heaviest claim *)
Theorem visual_award_is_heaviest :
  forall maxd minv s q t, ids_disjoint (map vd_dist s) -> In (q, t) (vis_feature maxd minv s) -> t <> q ->
    exists w, In (q, t, w) (cands maxd minv (map vd_dist s)) /\
              (forall q' w', In (q', t, w') (cands maxd minv (map vd_dist s)) -> (w' <= w)%Q) /\
              (forall t' w', In (q, t', w') (cands maxd minv (map vd_dist s)) -> (w' <= w)%Q).
Proof. exact visual_award_is_heaviest_lemma. Qed.

(* every query with an eligible visual claim gets a Visual entry ... *)
Theorem visual_claimant_has_entry :
  forall maxd minv s q t w, In (q, t, w) (cands maxd minv (map vd_dist s)) -> exists t', In (q, t') (vis_feature maxd minv s).
Proof. exact visual_claimant_has_entry_lemma. Qed.

(* ... claimants and visually excluded tracks never enter the positional stage ... *)
Theorem visual_claimants_never_positional :
  forall maxd minv s p, In p (vis_rem maxd minv s) ->
    ~ In (p_from p) (map fst (vis_feature maxd minv s)) /\ ~ In (p_to p) (map snd (vis_feature maxd minv s)).
Proof. exact vis_rem_not_claimant. Qed.

(* ... and the answer has at most one entry per query: the Visual entries are exactly vis_feature, the Positional entries
   are exactly one per query of the remaining sub-stream, none of them a claimant *)
Theorem visual_one_entry_per_query :
  forall km thr maxd minv s R, (0 < thr)%Z -> km_ok km -> hung_tie_free thr (vis_rem maxd minv s) ->
    visual_raw km thr maxd minv s = Some R ->
    NoDup (map fst R) /\
    (forall q t, In (q, (t, Visual)) R <-> In (q, t) (vis_feature maxd minv s)) /\
    (forall q, In q (froms (vis_rem maxd minv s)) -> exists t, In (q, (t, Positional)) R) /\
    (forall q t, In (q, (t, Positional)) R -> In q (froms (vis_rem maxd minv s)) /\ ~ In q (map fst (vis_feature maxd minv s))).
Proof. exact visual_raw_shape_lemma. Qed.

(* ---- non-vacuity ---------------------------------------------------------------------------------------------- *)
(* the repository's unit-test stream, moved to a dyadic grid: two queries, three tracks each, N = 2 *)
Definition ex_stream : list dist :=
  [mk 100 1 (Some (1#4)); mk 100 1 (Some (9#32)); mk 100 2 (Some (17#64)); mk 100 2 (Some (1#4));
   mk 100 3 (Some (9#32)); mk 100 3 (Some (5#16)); mk 107 1 (Some (19#64)); mk 107 1 (Some (5#16));
   mk 107 2 (Some (1#2)); mk 107 3 None]%Q.

Example c17_nonvacuous :
  topn_voting 2 (5#16) 1 ex_stream = [(100%N, [(2%N, 31#64); (1%N, 15#32)]); (107%N, [(1%N, 25#64)])]%Q /\
  best_fit_voting (5#16) 1 ex_stream
    = [(100%N, [(2%N, 31#64); (1%N, 15#32); (3%N, 13#32)]); (107%N, [(107%N, 25#64)])]%Q /\
  topn_distinct (5#16) 1 ex_stream /\ bestfit_distinct (5#16) 1 ex_stream /\ ids_disjoint ex_stream /\
  topn_voting 2 (5#16) 1 (rev ex_stream) = [(107%N, [(1%N, 25#64)]); (100%N, [(2%N, 31#64); (1%N, 15#32)])]%Q.
Proof.
  split; [vm_compute; reflexivity|]. split; [vm_compute; reflexivity|].
  assert (cands (5#16) 1 ex_stream = [(100%N, 1%N, 15#32); (100%N, 2%N, 31#64); (100%N, 3%N, 13#32); (107%N, 1%N, 25#64)]%Q) as E
    by (vm_compute; reflexivity).
  split; [|split; [|split]].
  - unfold topn_distinct. rewrite E. intros q t1 t2 w1 w2 H1 H2 Hw.
    cbn [In] in H1, H2.
    repeat match goal with H : _ \/ _ |- _ => destruct H as [H|H] end;
      try contradiction; inversion H1; inversion H2; subst; try reflexivity; try discriminate;
      exfalso; revert Hw; unfold Qeq; cbn; discriminate.
  - unfold bestfit_distinct. rewrite E. intros c1 c2 H1 H2 Hw.
    cbn [In] in H1, H2.
    repeat match goal with H : _ \/ _ |- _ => destruct H as [H|H] end;
      try contradiction; subst; try reflexivity; exfalso; revert Hw; unfold Qeq; cbn; discriminate.
  - intros d d' Hd Hd'. cbn [ex_stream In] in Hd, Hd'.
    repeat match goal with H : _ \/ _ |- _ => destruct H as [H|H] end; try contradiction; subst; cbn; discriminate.
  - vm_compute. reflexivity.
Qed.

(* Hungarian: the instance of Props/C02.v (greedy differs from optimal), with an oracle that returns the certified
   optimal assignment *)
Example c17_nonvacuous_hungarian :
  sort_voting (fun _ => [3; 2]) 30%Z 2 2 [(10%N, 1%N, 60%Z); (10%N, 2%N, 50%Z); (11%N, 1%N, 55%Z)]
    = Some [(10%N, 2%N); (11%N, 1%N)] /\
  (forall m idx, pad_matrix 30%Z 2 2 [(10%N, 1%N, 60%Z); (10%N, 2%N, 50%Z); (11%N, 1%N, 55%Z)] = Some (m, idx) ->
                 is_assignment (length m) (ncols m) [3; 2] /\ optimal m [3; 2]).
Proof.
  split; [vm_compute; reflexivity|]. intros m idx H. vm_compute in H. inversion H; subst m idx.
  apply (check_dual_sound_lemma _ [3; 2] [35; 30]%Z [0; 0; 25; 15]%Z). vm_compute. reflexivity.
Qed.

(* the stream of the greedy-vs-optimal instance has a unique optimum: hung_tie_free is satisfiable, and reversing the
   stream gives the same canonical winners *)
Example c17_nonvacuous_hungarian_perm :
  let s := [(10%N, 1%N, 60%Z); (10%N, 2%N, 50%Z); (11%N, 1%N, 55%Z)] in
  hung_tie_free 30%Z s /\
  hung_winners (fun _ => [3; 2]) 30%Z s = Some [(10%N, 2%N); (11%N, 1%N)] /\
  hung_winners (fun _ => [2; 3]) 30%Z (rev s) = Some [(10%N, 2%N); (11%N, 1%N)].
Proof.
  cbv zeta. split; [|split; vm_compute; reflexivity].
  unfold hung_tie_free. split; [|split; [|split]].
  - intros p Hp. cbn in Hp. destruct Hp as [Hp|[Hp|[Hp|[]]]]; subst; split; discriminate.
  - intros p p' Hp Hp'. cbn in Hp, Hp'.
    destruct Hp as [Hp|[Hp|[Hp|[]]]], Hp' as [Hp'|[Hp'|[Hp'|[]]]]; subst; vm_compute; discriminate.
  - unfold pairs_nodup. cbn. repeat constructor; cbn; intuition discriminate.
  - assert (forall W, gated_winners 30%Z [(10%N, 1%N, 60%Z); (10%N, 2%N, 50%Z); (11%N, 1%N, 55%Z)] W ->
              w_value [(10%N, 1%N, 60%Z); (10%N, 2%N, 50%Z); (11%N, 1%N, 55%Z)] 30%Z W = 105%Z ->
              W = [(10%N, 2%N); (11%N, 1%N)]) as H.
    { intros W [H1 [H2 H3]] Hv.
      destruct W as [|[f1 a] [|[f2 b] [|? ?]]]; try discriminate. cbn in H1. injection H1 as E1 E2. subst f1 f2.
      assert (a = 10%N \/ a = 1%N \/ a = 2%N) as Ha.
      { destruct (H3 10%N a (or_introl eq_refl)) as [E|[w [Hw _]]]; [left; exact E|].
        apply lastw_In in Hw. cbn in Hw. destruct Hw as [Hw|[Hw|[Hw|[]]]]; inversion Hw; tauto. }
      assert (b = 11%N \/ b = 1%N) as Hb.
      { destruct (H3 11%N b (or_intror (or_introl eq_refl))) as [E|[w [Hw _]]]; [left; exact E|].
        apply lastw_In in Hw. cbn in Hw. destruct Hw as [Hw|[Hw|[Hw|[]]]]; inversion Hw; tauto. }
      destruct Ha as [Ha|[Ha|Ha]], Hb as [Hb|Hb]; subst a b; try (vm_compute in Hv; discriminate); reflexivity. }
    intros W W' G G' V V'. change (fst (fst (best_partial 30%Z [(10%N, 1%N, 60%Z); (10%N, 2%N, 50%Z); (11%N, 1%N, 55%Z)]))) with 105%Z in V, V'.
    rewrite (H W G V), (H W' G' V'). reflexivity.
Qed.

(* visual voting: the repository's unit test `test_visual_positional_competitive_match_2` on dyadic values: query 1 wins
   track 2 visually, query 11 goes to the positional stage and gets track 3; reversing the stream changes nothing *)
Example c17_nonvacuous_visual :
  let s := [mkv 1 2 (Some 750000%Z) (Some (3#4)); mkv 1 2 None (Some (11#16)); mkv 1 2 None (Some (21#32));
            mkv 1 3 (Some 750000%Z) (Some (3#4)); mkv 1 3 None (Some (41#64));
            mkv 11 2 (Some 875000%Z) (Some (3#4)); mkv 11 3 (Some 625000%Z) (Some (41#64))]%Q in
  vis_feature (3#4) 2 s = [(1%N, 2%N)] /\ vis_rem (3#4) 2 s = [(11%N, 3%N, 625000%Z)] /\
  visual_winners (fun _ => [1]) 250000%Z (3#4) 2 s = Some [(1%N, (2%N, Visual)); (11%N, (3%N, Positional))] /\
  visual_winners (fun _ => [1]) 250000%Z (3#4) 2 (rev s) = Some [(1%N, (2%N, Visual)); (11%N, (3%N, Positional))].
Proof. cbv zeta. repeat split; vm_compute; reflexivity. Qed.
