(* C08 - Oriented-box intersection and IoU; pre-filter soundness.
   Property theorems only; the proofs live in Proofs/GeomProofs.v (exact rationals, Qops) and Proofs/GeomProofsR.v
   (one statement over the reals).  The model is Model/Geom.v; [c = cos, s = sin] are inputs of a box, and a
   statement that involves a rotation assumes  c^2 + s^2 = 1  ([unit_dir]).

   FULL STATEMENT THAT IS NOT PROVED (kept visible; see iou_exact_partial below):

     clip_area_eq_ref :
       forall l r : qbox, valid_box l -> valid_box r -> unit_dir l -> unit_dir r ->
         clip_area Qops (rect_vertices Qops l) (rect_vertices Qops r) ==
         inter_area_ref Qops (rect_vertices Qops l) (rect_vertices Qops r)

   (the Sutherland-Hodgman area equals the independent exact reference - vertices of each rectangle inside the
   other + edge crossings, sorted around their centroid, shoelace - for boxes rotated in general position), and
   with it the symmetry and the range [0,1] of the rotated IoU.  For boxes with the SAME orientation (and for
   unrotated boxes) all of this IS proved below (clip_area_exact_same_orientation, iou_same_orientation_sym / _range):
   boxes of different orientations in general position are the only remaining gap.  What is missing is a convex-polygon area theory
   (area of an intersection as a measure; invariance of the shoelace sum under the insertion/removal of the clip
   vertices).  The link is instead established case by case: Qeq_bool (clip area) (inter_area_ref) is evaluated
   inside coqc on every pair the check sends to the model (tools/props/c08.py), and the implementation is compared
   with an exact convex-hull reference on every generated pair. *)
From Coq Require Import List Bool ZArith QArith Reals.
From Similari Require Import Base.Num Model.Geom Proofs.BoxExtraProofs Proofs.GeomProofs Proofs.GeomProofsR.
From SimilariGen Require Import Scalar ScalarClip ScalarBox.
Import ListNotations.
Open Scope Q_scope.

(* the rectangle of a box has area aspect * height^2 (= the union term of the IoU) *)
Theorem rect_area :
  forall b : qbox, valid_box b -> unit_dir b ->
    shoelace Qops (rect_vertices Qops b) == box_area Qops b.
Proof. exact rect_area_unit. Qed.

(* the rectangle is convex and clockwise: every vertex is on the inner side of every edge *)
Theorem rect_clockwise_convex :
  forall b : qbox, valid_box b ->
    forall e, In e (edges Qops (rect_vertices Qops b)) -> all_in (fst e) (snd e) (rect_vertices Qops b).
Proof. exact rect_all_inside. Qed.

(* clipping commutes with a common translation / rotation of both polygons (vertex lists up to ==) *)
Theorem clip_translate :
  forall dx dy p p' q q',
    simL 1 0 dx dy p p' -> simL 1 0 dx dy q q' -> simL 1 0 dx dy (sh_clip Qops p q) (sh_clip Qops p' q').
Proof. exact clip_translate_lemma. Qed.

Theorem clip_rotate :
  forall c s p p' q q', c * c + s * s == 1 ->
    simL c s 0 0 p p' -> simL c s 0 0 q q' -> simL c s 0 0 (sh_clip Qops p q) (sh_clip Qops p' q').
Proof. exact clip_rotate_lemma. Qed.

(* ... and the area of a polygon is unchanged by a rigid motion *)
Theorem shoelace_rigid_motion :
  forall a b dx dy, 0 < a * a + b * b -> forall l l', simL a b dx dy l l' ->
    shoelace Qops l' == (a * a + b * b) * shoelace Qops l.
Proof. exact shoelace_sim. Qed.

(* IoU (with its None case, and the too_far pre-check inside) is unchanged when both boxes are translated or
   rotated together *)
Theorem iou_rigid_motion_invariant :
  forall a b dx dy (l l' r r' : qbox), a * a + b * b == 1 ->
    moved a b dx dy l l' -> moved a b dx dy r r' -> oeq (iou Qops l' r') (iou Qops l r).
Proof. exact iou_rigid_motion_lemma. Qed.

(* a rectangle clipped by itself is itself (equality of vertex lists), hence IoU = 1 for identical boxes *)
Theorem clip_self :
  forall b : qbox, valid_box b ->
    sh_clip Qops (rect_vertices Qops b) (rect_vertices Qops b) = rect_vertices Qops b.
Proof. exact clip_self_lemma. Qed.

Theorem iou_identical_is_one :
  forall b : qbox, valid_box b -> unit_dir b -> exists v, iou Qops b b = Some v /\ v == 1.
Proof. exact iou_identical_lemma. Qed.

(* every vertex of the clipped polygon satisfies all half-plane constraints of the clip polygon and every half-plane
   constraint that all subject vertices satisfy: the reported region is never outside the true intersection
   (for ANY subject and clip vertex lists) *)
Theorem clip_vertices_inside :
  forall (subj clip : list qpt) v, In v (sh_clip Qops subj clip) ->
    (forall e, In e (edges Qops clip) -> crossq (fst e) (snd e) v <= 0) /\
    (forall u w, (forall x, In x subj -> crossq u w x <= 0) -> crossq u w v <= 0).
Proof. exact clip_vertices_inside_lemma. Qed.

(* the crossing point computed along the subject segment (commit 04617aa) is the point of the former line-line
   formula, whenever the clipper calls it (end points classified differently) *)
Theorem compute_intersection_is_line_intersection :
  forall s e cs ce : qpt, sides_differ s e cs ce ->
    peq (compute_intersection_lines Qops s e cs ce) (compute_intersection Qops s e cs ce).
Proof. exact compute_intersection_lines_eq. Qed.

(* axis-aligned closed form (BoundingBox::intersection) *)
Theorem aa_inter_sym : forall l r, aa_inter Qops l r == aa_inter Qops r l.
Proof. exact aa_inter_sym_lemma. Qed.

Theorem aa_inter_range :
  forall l r, valid_ltwh l -> valid_ltwh r ->
    0 <= aa_inter Qops l r /\ aa_inter Qops l r <= aa_area l /\ aa_inter Qops l r <= aa_area r.
Proof. exact aa_inter_range_lemma. Qed.

Theorem aa_iou_in_unit_interval :
  forall l r, valid_ltwh l -> valid_ltwh r -> 0 <= aa_iou Qops l r <= 1.
Proof. exact aa_iou_range_lemma. Qed.

Theorem aa_inter_zero_iff_no_overlap :
  forall l r, valid_ltwh l -> valid_ltwh r ->
    (aa_inter Qops l r == 0 <-> ~ exists x y, in_open l x y /\ in_open r x y).
Proof. exact aa_inter_zero_iff_lemma. Qed.

Theorem aa_iou_identical : forall r, valid_ltwh r -> aa_iou Qops r r == 1.
Proof. exact aa_iou_identical_lemma. Qed.

(* when neither box is rotated the clipped area coincides with the closed form *)
Theorem clip_axis_aligned_eq_closed_form :
  forall l r : qbox, valid_box l -> valid_box r -> unrotated l -> unrotated r ->
    clip_area Qops (rect_vertices Qops l) (rect_vertices Qops r) == aa_inter Qops (to_ltwh Qops l) (to_ltwh Qops r).
Proof. exact clip_axis_aligned_lemma. Qed.

(* ... and so, for unrotated boxes, the GENERAL IoU (too_far pre-check, clipper, shoelace, None on zero) is the
   closed-form IoU end to end: symmetric, in (0,1] when present, absent exactly when the open rectangles do not meet *)
Theorem iou_unrotated_eq_closed_form :
  forall l r : qbox, valid_box l -> valid_box r -> unrotated l -> unrotated r ->
    oeq (iou Qops l r)
        (iou_of Qops (aa_inter Qops (to_ltwh Qops l) (to_ltwh Qops r)) (box_area Qops l) (box_area Qops r)).
Proof. exact iou_unrotated_lemma. Qed.

Theorem iou_unrotated_sym :
  forall l r : qbox, valid_box l -> valid_box r -> unrotated l -> unrotated r -> oeq (iou Qops l r) (iou Qops r l).
Proof. exact iou_unrotated_sym_lemma. Qed.

Theorem iou_unrotated_in_unit_interval :
  forall (l r : qbox) v, valid_box l -> valid_box r -> unrotated l -> unrotated r ->
    iou Qops l r = Some v -> 0 < v <= 1.
Proof. exact iou_unrotated_range_lemma. Qed.

Theorem iou_unrotated_absent_iff_no_overlap :
  forall l r : qbox, valid_box l -> valid_box r -> unrotated l -> unrotated r ->
    (iou Qops l r = None <-> ~ exists x y, in_open (to_ltwh Qops l) x y /\ in_open (to_ltwh Qops r) x y).
Proof. exact iou_unrotated_none_iff_lemma. Qed.

(* ... and for two boxes with the SAME orientation (any common angle): turned back by the common rotation they are
   unrotated, so the clipped area is the closed form of the turned-back boxes (the overlap of the projections on the
   common axes = the true intersection area of two parallel rectangles) and the IoU is exact, symmetric and in (0,1].
   With this the general-position case (different orientations) is the only gap of clip_area_eq_ref. *)
Theorem clip_area_exact_same_orientation :
  forall l r : qbox, valid_box l -> valid_box r -> unit_dir l -> same_dir l r ->
    clip_area Qops (rect_vertices Qops l) (rect_vertices Qops r) ==
    aa_inter Qops (to_ltwh Qops (unrot (bc l) (bs l) l)) (to_ltwh Qops (unrot (bc l) (bs l) r)).
Proof. exact clip_area_same_orientation_lemma. Qed.

Theorem iou_exact_same_orientation :
  forall l r : qbox, valid_box l -> valid_box r -> unit_dir l -> same_dir l r ->
    oeq (iou Qops l r)
        (iou_of Qops (aa_inter Qops (to_ltwh Qops (unrot (bc l) (bs l) l)) (to_ltwh Qops (unrot (bc l) (bs l) r)))
                (box_area Qops l) (box_area Qops r)).
Proof. exact iou_same_orientation_lemma. Qed.

Theorem iou_same_orientation_sym :
  forall l r : qbox, valid_box l -> valid_box r -> unit_dir l -> same_dir l r -> oeq (iou Qops l r) (iou Qops r l).
Proof. exact iou_same_orientation_sym_lemma. Qed.

Theorem iou_same_orientation_range :
  forall (l r : qbox) v, valid_box l -> valid_box r -> unit_dir l -> same_dir l r ->
    iou Qops l r = Some v -> 0 < v <= 1.
Proof. exact iou_same_orientation_range_lemma. Qed.

(* the cheap pre-check: symmetric, and never true for two boxes that share a point *)
Theorem too_far_sym : forall l r : qbox, too_far Qops l r = too_far Qops r l.
Proof. exact too_far_sym_lemma. Qed.

Theorem too_far_sound :
  forall (l r : qbox) p, valid_box l -> valid_box r -> unit_dir l -> unit_dir r ->
    in_rect l p -> in_rect r p -> too_far Qops l r = false.
Proof. exact too_far_sound_lemma. Qed.

(* the executable test is the squared, sqrt-free form (over Q) ... *)
Theorem too_far_squared_form :
  forall l r : qbox, too_far Qops l r = true <->
    0 < dist2q l r - radius2q l - radius2q r /\
    4 * radius2q l * radius2q r < (dist2q l r - radius2q l - radius2q r) * (dist2q l r - radius2q l - radius2q r).
Proof. exact too_far_iff. Qed.

(* ... of the code's  x*x + y*y > (r_l + r_r)^2  with r = sqrt(radius2) (over R) *)
Theorem too_far_sqrt_form :
  forall d2 r1 r2 : R, (0 <= r1)%R -> (0 <= r2)%R ->
    ((sqrt r1 + sqrt r2) * (sqrt r1 + sqrt r2) < d2 <->
     (0 < d2 - r1 - r2 /\ 4 * r1 * r2 < (d2 - r1 - r2) * (d2 - r1 - r2)))%R.
Proof. exact too_far_sqrt_form_lemma. Qed.

(* ---- the tie to the Rust source: gen/ScalarClip.v and gen/ScalarBox.v are regenerated from /repo on every run ----
   The model CALLS the translated is_inside / compute_intersection / vertices / radius^2 / axis-aligned intersection
   (equalities by computation; pinned here so that a re-written model cannot drift silently); the remaining scalar
   definitions of the model are hand-written and proved equal to the translated text.  A changed comparison or
   formula in clipping.rs / bbox.rs therefore breaks a Qed in this cone. *)
Theorem is_inside_is_translation :
  forall q p1 p2 : qpt,
    is_inside Qops q p1 p2 = clip_is_inside Qops (to_coord Qops q) (to_coord Qops p1) (to_coord Qops p2).
Proof. exact is_inside_is_translation_lemma. Qed.

Theorem compute_intersection_is_translation :
  forall cp1 cp2 s e : qpt,
    compute_intersection Qops cp1 cp2 s e =
    of_coord Qops (clip_compute_intersection Qops (to_coord Qops cp1) (to_coord Qops cp2) (to_coord Qops s) (to_coord Qops e)).
Proof. exact compute_intersection_is_translation_lemma. Qed.

Theorem rect_vertices_is_translation :
  forall b : qbox, rect_vertices Qops b = map (of_coord Qops) (ubox_vertices Qops (to_ubox Qops b) (bc b) (bs b)).
Proof. exact rect_vertices_is_translation_lemma. Qed.

Theorem radius2_is_translation : forall b : qbox, radius2 Qops b = ubox_radius_sq Qops (to_ubox Qops b).
Proof. exact radius2_is_translation_lemma. Qed.

Theorem aa_inter_is_translation :
  forall l r : ltwh Qops, aa_inter Qops l r = bbox_intersection Qops (to_bbox Qops l) (to_bbox Qops r).
Proof. exact aa_inter_is_translation_lemma. Qed.

Theorem box_area_is_translation : forall b : qbox, box_area Qops b == ubox_area Qops (to_ubox Qops b).
Proof. exact box_area_is_translation_lemma. Qed.

Theorem to_ltwh_is_translation :
  forall b : qbox, ubox_to_bbox Qops (to_ubox Qops b) = Some (to_bbox Qops (to_ltwh Qops b)).
Proof. exact to_ltwh_is_translation_lemma. Qed.

Theorem of_ltwh_is_translation :
  forall r : ltwh Qops, bbox_to_ubox Qops (to_bbox Qops r) = to_ubox Qops (of_ltwh Qops r).
Proof. exact of_ltwh_is_translation_lemma. Qed.

(* the translated too_far (radii = any non-negative numbers whose squares are the translated radius_sq, i.e. the
   square roots the code takes) decides exactly what the model's sqrt-free too_far decides *)
Theorem too_far_is_translation :
  forall (l r : qbox) (rl rr : Q),
    0 <= rl -> 0 <= rr -> rl * rl == radius2 Qops l -> rr * rr == radius2 Qops r ->
    ubox_too_far_r Qops (to_ubox Qops l) (to_ubox Qops r) rl rr = too_far Qops l r.
Proof. exact too_far_is_translation_lemma. Qed.

(* PARTIAL (see the header): what is proved of "the reported area is the true area" *)
Theorem iou_exact_partial :
  forall l r : qbox, valid_box l -> valid_box r ->
    (forall v, In v (sh_clip Qops (rect_vertices Qops l) (rect_vertices Qops r)) -> in_rect l v /\ in_rect r v) /\
    (unrotated l -> unrotated r ->
     clip_area Qops (rect_vertices Qops l) (rect_vertices Qops r) == aa_inter Qops (to_ltwh Qops l) (to_ltwh Qops r)) /\
    (unit_dir l -> inter_area Qops l l == box_area Qops l).
Proof. exact iou_exact_partial_lemma. Qed.

(* Non-vacuity: the unit test of bbox.rs (two 1 x 2 boxes at right angles, cos/sin of a 3-4-5 triangle instead of
   angle 2.0) and a pair of unrotated boxes; the model's area agrees with the independent reference. *)
Example c08_nonvacuous :
  let a := mkbox (num:=Qops) 0 0 (3 # 5) (4 # 5) (1 # 2) 2 in
  let b := mkbox (num:=Qops) 0 0 (- (4 # 5)) (3 # 5) (1 # 2) 2 in
  let c := mkbox (num:=Qops) (1 # 2) (1 # 2) 1 0 1 2 in
  let d := mkbox (num:=Qops) 0 0 1 0 1 2 in
  valid_box a /\ unit_dir a /\ unit_dir b /\
  iou Qops a b = Some (1 # 3) /\
  inter_area Qops a b = inter_area_ref Qops (rect_vertices Qops a) (rect_vertices Qops b) /\
  iou Qops c d = Some (9 # 23) /\
  aa_inter Qops (to_ltwh Qops c) (to_ltwh Qops d) = 9 # 4 /\
  too_far Qops a (mkbox (num:=Qops) 10 0 1 0 (1 # 2) 2) = true.
Proof. cbv zeta. repeat split; vm_compute; reflexivity. Qed.

(* Non-vacuity of the same-orientation theorems: two boxes along the 3-4-5 direction (c = 3/5, s = 4/5) *)
Example c08_same_orientation_nonvacuous :
  let l := mkbox (num:=Qops) 0 0 (3 # 5) (4 # 5) 2 2 in
  let r := mkbox (num:=Qops) 1 (1 # 2) (3 # 5) (4 # 5) 1 2 in
  valid_box l /\ valid_box r /\ unit_dir l /\ same_dir l r /\
  Qeq_bool (clip_area Qops (rect_vertices Qops l) (rect_vertices Qops r))
           (aa_inter Qops (to_ltwh Qops (unrot (bc l) (bs l) l)) (to_ltwh Qops (unrot (bc l) (bs l) r))) = true /\
  Qlt_le_dec 0 (clip_area Qops (rect_vertices Qops l) (rect_vertices Qops r)) = left eq_refl /\
  iou Qops l r = iou Qops r l.
Proof. cbv zeta. repeat split; vm_compute; reflexivity. Qed.
