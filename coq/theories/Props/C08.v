(* C08 - property theorems only; proofs live in Proofs/GeomProofs.v. *)
From Coq Require Import List Bool ZArith QArith.
From Similari Require Import Base.Num Model.Geom Proofs.GeomProofs.
Import ListNotations.

Theorem clip_by_nothing : forall subj : list qpt, sh_clip Qops subj [] = subj.
Proof. exact sh_clip_nil_clip. Qed.
