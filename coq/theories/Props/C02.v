(* C02 - In positional (SORT) tracking the continuations chosen in one call form a gated one-to-one assignment of
   maximum total weight, where leaving a detection unmatched counts as the threshold weight.
   Property theorems only; proofs live in Proofs/AssignProofs.v (assignment) and Proofs/GateProofs.v (gate).

   Reading guide.  A stream s : pairs is what SortVoting::winners receives: (candidate id, track id, integer weight)
   with weight = (metric * 1e6) as i64; thr is the threshold scaled the same way.  pad_matrix / decode are the model of
   sort/voting.rs; kuhn_munkres is an ORACLE whose specification is [optimal] ("a maximum-weight assignment").
   lastw s f t is the weight of the pair (f, t) in the stream (None: the pair was filtered out by the gate).
   A partial matching M : pmatch maps every detection of the stream to Some track or None (new track); its value is
   the sum of the matched weights plus thr for every unmatched detection. *)
From Coq Require Import List NArith ZArith QArith Bool.
From Similari Require Import Base.Num Model.Assign Proofs.AssignProofs Proofs.GateProofs.
From SimilariGen Require Import Consts Scalar ScalarBox ScalarCost ScalarGate.
Import ListNotations.
Local Close Scope Q_scope.
Local Open Scope nat_scope.

(* MAIN THEOREM, for every size and every stream (thr > 0; detection ids and track ids disjoint):
   for EVERY optimal assignment a of the padded matrix - whatever kuhn_munkres returns -
     - decode does not panic and yields W with exactly one entry per detection of the stream, in order;
     - no track (and no detection) occurs twice on the right-hand side: the continuations are one-to-one;
     - an entry is the detection itself (new track) or a pair of the stream whose weight reaches thr (passes the gate);
     - the value of W is at least the value of every partial one-to-one matching of stream pairs, and equals the
       optimum found by exhaustive search: the choice is a maximum, never merely greedy or first-come. *)
Theorem pad_opt_is_gated_partial :
  forall (thr : Z) (n cols : nat) (s : pairs) (m : matrix) (idx : list N) (a : list nat),
    (0 < thr)%Z -> ids_disj s -> pad_matrix thr n cols s = Some (m, idx) ->
    is_assignment n (n + cols) a -> optimal m a ->
    exists W, decode idx a = Some W /\ gated_winners thr s W /\
              (forall M, valid_pm (lastw s) (froms s) (tos s) M -> (pm_value (lastw s) thr M <= w_value s thr W)%Z) /\
              w_value s thr W = fst (fst (best_partial thr s)).
Proof. exact pad_opt_lemma. Qed.

(* the same through the model of SortVoting::winners, for any oracle that returns an optimal assignment of the one
   matrix it is given *)
Theorem sort_voting_is_gated_maximum :
  forall (km : matrix -> list nat) (thr : Z) (n cols : nat) (s : pairs) (W : list (N * N)),
    (0 < thr)%Z -> ids_disj s -> length (tos s) <= cols ->
    (forall m idx, pad_matrix thr n cols s = Some (m, idx) ->
                   is_assignment (length m) (ncols m) (km m) /\ optimal m (km m)) ->
    sort_winners km thr n cols s = Some W ->
    gated_winners thr s W /\
    (forall M, valid_pm (lastw s) (froms s) (tos s) M -> (pm_value (lastw s) thr M <= w_value s thr W)%Z) /\
    w_value s thr W = fst (fst (best_partial thr s)).
Proof. exact sort_winners_gated. Qed.

(* a pair that does not pass the gate is never continued *)
Theorem ungated_never_continued :
  forall thr s W f t, gated_winners thr s W -> t <> f ->
    (lastw s f t = None \/ exists w, lastw s f t = Some w /\ (w < thr)%Z) -> ~ In (f, t) W.
Proof. exact ungated_never_continued_lemma. Qed.

(* best_partial is the maximum over all partial one-to-one matchings, is attained, and is one-to-one *)
Theorem best_partial_optimal :
  forall thr s M, valid_pm (lastw s) (froms s) (tos s) M ->
    (pm_value (lastw s) thr M <= fst (fst (best_partial thr s)))%Z.
Proof. exact best_partial_optimal_lemma. Qed.

Theorem best_partial_attained :
  forall thr s, valid_pm (lastw s) (froms s) (tos s) (snd (fst (best_partial thr s))) /\
                pm_value (lastw s) thr (snd (fst (best_partial thr s))) = fst (fst (best_partial thr s)).
Proof. exact best_partial_attained_lemma. Qed.

Theorem best_partial_injective : forall thr s, NoDup (matched (snd (fst (best_partial thr s)))).
Proof. exact best_partial_injective_lemma. Qed.

(* the certificate checker: potentials accepted by check_dual prove that a is a maximum-weight assignment of m
   (weak duality); this is what certifies the implementation's answers on instances of any size *)
Theorem check_dual_sound :
  forall m a u v, check_dual m a u v = true -> is_assignment (length m) (ncols m) a /\ optimal m a.
Proof. exact check_dual_sound_lemma. Qed.

(* declaring more tracks than the stream mentions (all-zero columns) changes nothing: the index is the same and every
   optimal assignment of the wider matrix is an optimal assignment of the narrower one *)
Theorem extra_zero_columns_irrelevant :
  forall thr n c c' s m m' idx idx' a,
    (0 < thr)%Z -> ids_disj s -> c <= c' ->
    pad_matrix thr n c s = Some (m, idx) -> pad_matrix thr n c' s = Some (m', idx') ->
    idx' = idx /\ (is_assignment n (n + c') a -> optimal m' a -> is_assignment n (n + c) a /\ optimal m a).
Proof. exact extra_zero_columns_lemma. Qed.

(* THE GATE (translated SortMetric::metric, gen/ScalarGate.v; proofs by the gate builder in Proofs/GateProofs.v).
   IoU mode: a weight is reported only if the pair is not too far, has an IoU, and IoU * max(confidence, min_confidence)
   reaches the threshold. *)
Theorem c02_gate_iou :
  forall (mc thr : Q) cand trk far (d : Q) (iou : option Q) (w : Q) x,
    sort_metric Qops mc (PositionalMetricType_IoU Qops thr) cand trk far d iou = Some (Some w, x) ->
    far = false /\ x = None /\ exists i, iou = Some i /\ (w == i * sort_conf mc cand)%Q /\ (thr <= w)%Q.
Proof. exact gate_iou. Qed.

(* Mahalanobis mode: the weight is positive exactly inside the 95% chi-square gate and 0 outside (and no weight at all
   beyond bounding-circle reach); with the threshold 1.0 an out-of-gate pair has integer weight 0 < thr and is never
   continued (ungated_never_continued). *)
Theorem c02_gate_maha :
  forall (mc : Q) cand trk far (d : Q) (iou : option Q) (w : Q) x,
    sort_metric Qops mc (PositionalMetricType_Mahalanobis Qops) cand trk far d iou = Some (Some w, x) ->
    far = false /\ x = None /\ (w == box_calculate_cost Qops d true / sort_conf mc cand)%Q /\
    ((0 < mc)%Q -> ((0 < w)%Q <-> (d <= CostProofs.box_gate)%Q) /\ ((CostProofs.box_gate < d)%Q -> (w == 0)%Q)).
Proof. exact gate_maha. Qed.

(* NON-VACUITY and "never merely greedy": detection 10 overlaps tracks 1 (60) and 2 (50), detection 11 only track 1 (55),
   threshold 30.  First-come gives 10 -> 1 and leaves 11 alone (60 + 30 = 90); the optimum is 10 -> 2, 11 -> 1 (105).
   The optimal assignment is certified by check_dual, the greedy one is an assignment that is NOT optimal. *)
Definition ex_s : pairs := [(10%N, 1%N, 60%Z); (10%N, 2%N, 50%Z); (11%N, 1%N, 55%Z)].

Example greedy_not_optimal_witness :
  exists m idx,
    pad_matrix 30%Z 2 2 ex_s = Some (m, idx) /\ ids_disj ex_s /\
    optimal m [3; 2] /\ decode idx [3; 2] = Some [(10%N, 2%N); (11%N, 1%N)] /\
    is_assignment 2 4 [2; 1] /\ decode idx [2; 1] = Some [(10%N, 1%N); (11%N, 11%N)] /\
    (aweight m [2%nat; 1%nat] < aweight m [3%nat; 2%nat])%Z /\ ~ optimal m [2; 1] /\
    fst (fst (best_partial 30%Z ex_s)) = 105%Z.
Proof.
  eexists. eexists. split; [vm_compute; reflexivity|].
  assert (is_assignment 2 4 [3; 2] /\ optimal [[30; 0; 60; 50]; [0; 30; 55; 0]]%Z [3; 2]) as [Ha Hopt].
  { apply (check_dual_sound_lemma [[30; 0; 60; 50]; [0; 30; 55; 0]]%Z [3; 2] [35; 30]%Z [0; 0; 25; 15]%Z). vm_compute. reflexivity. }
  split.
  { intros p p' Hp Hp'. cbn in Hp, Hp'.
    destruct Hp as [Hp|[Hp|[Hp|[]]]], Hp' as [Hp'|[Hp'|[Hp'|[]]]]; subst; vm_compute; discriminate. }
  split; [exact Hopt|]. split; [vm_compute; reflexivity|].
  assert (is_assignment 2 4 [2; 1]) as Hg.
  { unfold is_assignment. split; [reflexivity|]. split.
    - constructor; [intros [H|[]]; discriminate | constructor; [intros [] | constructor]].
    - intros j [H|[H|[]]]; subst; repeat constructor. }
  split; [exact Hg|]. split; [vm_compute; reflexivity|]. split; [vm_compute; reflexivity|].
  split; [|vm_compute; reflexivity].
  intro H. specialize (H [3; 2] Ha). vm_compute in H. apply H. reflexivity.
Qed.
