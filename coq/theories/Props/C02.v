(* C02 - positional association: gated maximum-weight one-to-one assignment. Property theorems only. *)
From Coq Require Import List NArith ZArith Bool.
From Similari Require Import Model.Assign Proofs.AssignProofs.
Import ListNotations.

Example c02_pad_example :
  pad_matrix 3 2 2 [(10%N, 1%N, 5%Z); (11%N, 1%N, 6%Z); (10%N, 2%N, 4%Z)]
  = Some ([[3; 0; 5; 4]; [0; 3; 6; 0]]%Z, [10; 11; 1; 2]%N).
Proof. vm_compute. reflexivity. Qed.
