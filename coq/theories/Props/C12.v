(* C12 - VisualSORT: appearance votes first, positional fallback, truthful voting type.
   Property theorems only; proofs live in Proofs/VisualTrackerProofs.v; the model (Model/VisualTracker.v) mirrors
   VisualSort::predict_with_scene, VisualMetric::metric, VisualVoting::winners and BestFitVoting::winners.

   Every theorem is about ONE call [cl] made in a state [st]: all options [o], all oracles (feature distances [c_fd],
   positional metric values [c_pos], the assignment solver [c_solver] are arbitrary functions carried by the call), all
   detection lists.  Where a hypothesis on the state is needed (track ids unique / below the id counter) it is an
   invariant of every reachable state: [reachable_state_invariants].  [plan_of o st cl] is everything the voting
   computes from the state before the call: distances, best-fit result, remaining pairs, solver answer, decisions. *)
From Coq Require Import List NArith ZArith QArith Bool Arith.
From Similari Require Import Model.VisualAttrs Model.VisualTracker Proofs.VisualAttrsProofs Proofs.VisualTrackerProofs.
Import ListNotations.
Local Open Scope nat_scope.

(* A record that reports visual voting continues a stored, compatible track [t]; the detection's feature is usable at
   the USE thresholds (area, quality, own-area share) and present; [t] has collected at least the minimal number of
   features; and at least visual_min_votes of [t]'s stored features are within the visual distance threshold of the
   detection's feature ([vote_ok] = stored feature present && is_ok (c_fd detection stored)).  Moreover no other claim
   on [t] is heavier than the winning one. *)
Theorem visual_attach_sound :
  forall (o : topts) (st : tstate) (cl : call) st' recs i d r,
    NoDup (map d_uid (c_dets cl)) -> NoDup (ids (s_tracks st)) ->
    step o st cl = (st', recs) -> nth_error (c_dets cl) i = Some d -> nth_error recs i = Some r ->
    tr_visual r = true ->
    exists t c, In t (s_tracks st) /\ tt_id t = tr_id r /\
      In (c, true) (p_bf (plan_of o st cl)) /\ cl_from c = d_uid d /\ cl_to c = tr_id r /\
      compatible o (c_scene cl) (p_epoch (plan_of o st cl)) t = true /\
      can_use o d = true /\ d_feat d = true /\ to_min_len o <= collected t /\
      to_min_votes o <= cl_votes c /\
      cl_votes c <= length (filter (vote_ok o cl (d_uid d)) (t_gal (tt_body t))) /\
      (forall c', In c' (claims o (p_dists (plan_of o st cl))) -> cl_to c' = tr_id r -> (cl_w c' <= cl_w c)%Q).
Proof. exact visual_attach_lemma. Qed.

(* the USE gate, spelled out *)
Theorem usable_iff :
  forall (o : topts) (d : det),
    can_use o d = true <->
    (o_min_area (to_g o) <= d_area d)%Q /\ (to_q_use o <= d_q d)%Q /\
    (forall p, d_own d = Some p -> (to_own_use o <= p)%Q).
Proof. intros o d. apply feature_can_be_used_iff. Qed.

(* The distance gate and the vote weight are the translated VisualSortMetricType::is_ok / distance_to_weight of the Rust
   source: Euclidean accepts d <= t with weight d, cosine accepts d >= t with weight 1 - d. *)
Theorem is_ok_exact :
  forall (t d : Q), (is_ok (Euclid t) d = true <-> (d <= t)%Q) /\ (is_ok (Cosine t) d = true <-> (t <= d)%Q).
Proof. exact is_ok_iff. Qed.

Theorem distance_to_weight_exact :
  forall (t d : Q), (distance_to_weight (Euclid t) d == d)%Q /\ (distance_to_weight (Cosine t) d == 1 - d)%Q.
Proof. exact distance_to_weight_eq. Qed.

(* The positional pair that reaches the voting: the oracle value, kept under Mahalanobis, and under IoU(thr) kept exactly
   when value >= thr (the filter of the translated positional_metric). *)
Theorem positional_gate_exact :
  forall (o : topts) p w z,
    pos_gate o p = Some (w, z) <->
    p = Some (w, z) /\ (to_pos o = Maha \/ exists thr, to_pos o = IoU thr /\ (thr <= w)%Q).
Proof. exact pos_gate_spec. Qed.

(* A detection has a claim on a track exactly when at least visual_min_votes (and at least one) of the distances that
   passed every gate vote for the pair. *)
Theorem claim_iff_enough_votes :
  forall (o : topts) (ds : list dist) (a b : N),
    (exists c, In c (claims o ds) /\ cl_from c = a /\ cl_to c = b) <->
    (votes_for o ds a b <> [] /\ to_min_votes o <= length (votes_for o ds a b)).
Proof. exact claim_exists_iff. Qed.

(* Among competing claims a track goes to the claimant with the greatest vote weight (same statement, isolated). *)
Theorem visual_winner_is_heaviest :
  forall (o : topts) (st : tstate) (cl : call) (c : claim),
    In (c, true) (p_bf (plan_of o st cl)) ->
    forall c', In c' (claims o (p_dists (plan_of o st cl))) -> cl_to c' = cl_to c -> (cl_w c' <= cl_w c)%Q.
Proof. intros o st cl c H. exact (bestfit_heaviest o _ c H). Qed.

(* The record reports visual voting exactly when the detection's heaviest claim won its track in the appearance stage
   (and then the record carries that track's id).  In particular records of new tracks and of positional attachments
   report positional voting. *)
Theorem voting_type_truthful :
  forall (o : topts) (st : tstate) (cl : call) st' recs i d r,
    step o st cl = (st', recs) -> nth_error (c_dets cl) i = Some d -> nth_error recs i = Some r ->
    (tr_visual r = true <-> exists t, visual_decision (p_bf (plan_of o st cl)) (d_uid d) = VWin t /\ tr_id r = t).
Proof. exact voting_type_truthful_lemma. Qed.

(* Detections without any appearance claim are associated by the SORT assignment solver, applied to exactly the pairs
   (claim-free detection, track not taken by appearance) that have a gated positional metric; a detection the solver
   matches continues that track with positional voting, one it leaves unmatched starts a new track. *)
Theorem positional_fallback_is_sort :
  forall (o : topts) (st : tstate) (cl : call),
    let p := plan_of o st cl in
    p_sol p = c_solver cl (to_thr_z o) (p_remaining p) /\
    p_remaining p = remaining (p_dists p) (p_bf p) (map d_uid (c_dets cl)) /\
    forall st' recs i d r,
      step o st cl = (st', recs) -> nth_error (c_dets cl) i = Some d -> nth_error recs i = Some r ->
      ~ In (d_uid d) (claimants (p_bf p)) ->
      match find (fun q => (fst q =? d_uid d)%N) (p_sol p) with
      | Some q => In (snd q) (ids (s_tracks st)) -> tr_id r = snd q /\ tr_visual r = false
      | None => (s_next st < tr_id r)%N /\ tr_visual r = false /\ tr_len r = 1
      end.
Proof. exact positional_fallback_lemma. Qed.

(* which pairs reach the solver *)
Theorem remaining_pairs_exact :
  forall ds bf cands c t z,
    In (c, t, z) (remaining ds bf cands) <->
    exists x w, In x ds /\ di_from x = c /\ di_to x = t /\ di_pos x = Some (w, z) /\
                ~ In c (claimants bf) /\ ~ In t (excluded bf cands).
Proof. exact remaining_spec. Qed.

Theorem excluded_tracks_exact :
  forall bf cands t, In t (excluded bf cands) <-> exists c, In c cands /\ visual_decision bf c = VWin t.
Proof. exact excluded_spec. Qed.

(* the positional metric that reaches the voting is the oracle value gated by the IoU threshold (Mahalanobis: as is),
   and only the newest stored observation of a compatible track carries one *)
Theorem positional_pairs_gated :
  forall (o : topts) (cl : call) e tracks x,
    In x (all_dists o cl e tracks) ->
    exists d t, In d (c_dets cl) /\ In t tracks /\ compatible o (c_scene cl) e t = true /\
                di_from x = d_uid d /\ di_to x = tt_id t /\
                (di_pos x = None \/ di_pos x = pos_gate o (c_pos cl (d_uid d) (tt_id t))).
Proof.
  intros o cl e tracks x H. destruct (all_dists_in o _ _ _ _ H) as (d & t & Hd & Ht & Hc & Hx).
  destruct (dists_obs_in o _ _ _ _ _ _ Hx) as (A & B & _ & D). exists d, t. auto 10.
Qed.

(* The assignment solver is an oracle; the correspondence accepts the implementation's positional matches only through
   [matching_ok].  That certificate is sound: an accepted answer is a valid one-to-one gated matching whose value
   (matched weights + threshold per unmatched detection) is not exceeded by ANY valid matching of the same pairs. *)
Theorem solver_certificate_sound :
  forall (thr : Z) (pairs : list (N * N * Z)) (m : list (N * N)),
    matching_ok thr pairs m = true ->
    matching_valid pairs m = true /\
    forall m', matching_valid pairs m' = true -> (matching_value thr pairs m' <= matching_value thr pairs m)%Z.
Proof. exact matching_ok_optimal. Qed.

(* A detection that has a claim on a track which another detection won by appearance is never attached to that track;
   if its own record is not a visual attachment elsewhere, it starts a new track. *)
Theorem contest_loser_not_attached :
  forall (o : topts) (st : tstate) (cl : call) st' recs i j di dj ri rj cj,
    Forall (fun id => (id <= s_next st)%N) (ids (s_tracks st)) ->
    step o st cl = (st', recs) ->
    nth_error (c_dets cl) i = Some di -> nth_error recs i = Some ri ->
    nth_error (c_dets cl) j = Some dj -> nth_error recs j = Some rj ->
    d_uid di <> d_uid dj ->
    tr_visual ri = true ->
    In cj (claims o (p_dists (plan_of o st cl))) -> cl_from cj = d_uid dj -> cl_to cj = tr_id ri ->
    tr_id rj <> tr_id ri /\ (tr_visual rj = false -> (s_next st < tr_id rj)%N /\ tr_len rj = 1).
Proof. exact contest_loser_lemma. Qed.

(* A detection whose heaviest claim lost, or that has no claim and is left unmatched by the solver, starts a new
   track: fresh id, length one, positional voting type, current epoch. *)
Theorem unmatched_starts_new_track :
  forall (o : topts) (st : tstate) (cl : call) st' recs i d r,
    step o st cl = (st', recs) -> nth_error (c_dets cl) i = Some d -> nth_error recs i = Some r ->
    let p := plan_of o st cl in
    ((exists t, visual_decision (p_bf p) (d_uid d) = VLost t) \/
     (~ In (d_uid d) (claimants (p_bf p)) /\ find (fun q => (fst q =? d_uid d)%N) (p_sol p) = None)) ->
    (s_next st < tr_id r)%N /\ tr_visual r = false /\ tr_len r = 1 /\ tr_epoch r = p_epoch p.
Proof. exact unmatched_lemma. Qed.

Theorem one_record_per_detection :
  forall (o : topts) (st : tstate) (cl : call) st' recs, step o st cl = (st', recs) -> length recs = length (c_dets cl).
Proof. exact records_length. Qed.

(* Every state reachable from the empty tracker by any sequence of calls: track ids are unique and not above the id
   counter, and every track's collected-features count is the number of features in its gallery (so the
   "collected >= minimal length" gate above is a statement about the gallery). *)
Theorem reachable_state_invariants :
  forall (o : topts) (cls : list call),
    let st := run o state0 cls in
    NoDup (ids (s_tracks st)) /\ Forall (fun id => (id <= s_next st)%N) (ids (s_tracks st)) /\
    Forall (fun t => collected t = count_feat (t_gal (tt_body t))) (s_tracks st).
Proof. exact reachable_inv. Qed.

(* ---- non-vacuity: a contest, a loser with a strong positional pair, a positional attachment ----------------- *)
Local Open Scope Q_scope.
Definition ex_o : topts := mkTopts (mkGopts 3%nat 2%nat 0 0 0) (Euclid 1) (IoU (3#10)) 300000%Z 1%nat 1%nat 0 0 2%N 1000.
Definition ex_d (u : N) (f : bool) : det := mkDet u (3#4) f 600 None.
Definition ex_c1 : ecall := mkECall 0%N [ex_d 1 true; ex_d 2 true] [] [] [].
Definition ex_c2 : ecall :=
  mkECall 0%N [ex_d 3 true; ex_d 4 true; ex_d 5 false]
          [(3%N, 1%N, 1#10); (4%N, 1%N, 1#2); (3%N, 2%N, 5); (4%N, 2%N, 5)]
          [(5%N, 2%N, (4#5, 800000%Z)); (4%N, 1%N, (9#10, 900000%Z))] [(5%N, 2%N)].

(* detection 3 wins track 1 by appearance; detection 4 also claims track 1, loses, and starts track 3 although its
   positional metric with track 1 is 0.9; featureless detection 5 goes to track 2 positionally *)
Example c12_nonvacuous :
  map (fun x => map (fun r => (fst (fst (fst (fst (fst r)))), snd (fst (fst r)))) (fst (fst x))) (run_case ex_o (1#100000) [ex_c1; ex_c2])
  = [[(1%N, false); (2%N, false)]; [(1%N, true); (3%N, false); (2%N, false)]].
Proof. vm_compute. reflexivity. Qed.
