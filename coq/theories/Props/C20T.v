(* C20 (tracker level) - spatio-temporal constraints inside the positional SORT trackers.
   "A tracker configured with constraints that no pair violates behaves exactly like one without constraints,
    and with binding constraints no detection is ever attached to a track that is farther away than the limit
    for their epoch gap."
   Property theorems only; proofs live in Proofs/TrackerC20.v.  (The table-level theorems are in Props/C20.v.) *)
From Coq Require Import List NArith ZArith QArith Bool.
From Similari Require Import Base.Num Model.Constraints Model.Tracker Proofs.ConstraintsProofs
     Proofs.TrackerBase Proofs.TrackerPredict Proofs.TrackerInv Proofs.TrackerC01 Proofs.TrackerC20 Proofs.TrackerSolver.
Import ListNotations.
Open Scope N_scope.

Section C20T.
  Variable G : N -> list N -> option Z.
  Variable D2R : N -> list N -> Q.
  Variable solve : solver.
  Variable c : cfg.

  (* For every history: if at no predict call of the run a pair the call considers (a submitted detection and a
     live track of the same scene within max_idle epochs) violates the table, then the run with the table and the
     run without any table are the same run: same outputs, same final state. *)
  Theorem nonbinding_constraints_noop :
    forall ops,
      (forall ops1 op ops2, ops = ops1 ++ op :: ops2 ->
         nonbinding_step D2R c (snd (trun G D2R solve c ops1)) op) ->
      trun G D2R solve (unconstrained c) ops = trun G D2R solve c ops.
  Proof. exact (nonbinding_noop_lemma G D2R solve c). Qed.

  (* With any table: a record either starts a new track or continues a live track of the same scene whose epoch gap
     is within max_idle and for which validate(table, gap, dist_in_2r) answered true ... *)
  Theorem binding_constraints_respected :
    solver_sound solve ->
    forall st scene dets recs st',
      reach G D2R solve c st -> tstep G D2R solve c st (Predict scene dets) = (ORecords recs, st') ->
      forall i d r, nth_error dets i = Some d -> nth_error recs i = Some r ->
        next_id st < r_id r
        \/ exists t0, In t0 (live st) /\ t_id t0 = r_id r /\ t_scene t0 = scene
                      /\ absdiff (epoch_of (epochs st) scene + 1) (t_last t0) <= max_idle c
                      /\ validate (table c) (absdiff (epoch_of (epochs st) scene + 1) (t_last t0))
                                  (D2R (d_uid d) (g_dets t0)) = Some true.
  Proof. exact (binding_respected_lemma G D2R solve c). Qed.

  (* ... and that answer means: the distance does not exceed the limit configured (first) for the least configured
     gap that is not below the epoch gap (C20's validate_exact), whatever sequence of add_constraints calls built
     the table. *)
  Theorem validate_true_means_within_limit :
    forall adds gap dist,
      run_adds [] adds = Some (table c) -> validate (table c) gap dist = Some true ->
      exists lim, applicable (concat adds) gap lim /\ match lim with Some m => (dist <= m)%Q | None => True end.
  Proof. exact (validate_true_limit c). Qed.
End C20T.

(* Non-vacuity: 3 mutually overlapping detections over 2 tracks.  With the binding table [(1, 1/2)] detection 3 is too
   far (dist 3/4) from track 1 although its weight is the largest, so it may not continue it; with a table that no
   pair violates ([(1, 2)]) the run equals the unconstrained one. *)
Definition ex20_G (cand : N) (dets : list N) : option Z :=
  match cand, last dets 0 with
  | 3, 1 => Some 900000%Z | 3, 2 => Some 500000%Z
  | 4, 1 => Some 600000%Z | 4, 2 => Some 800000%Z
  | 5, 1 => Some 700000%Z | 5, 2 => Some 700000%Z
  | _, _ => None
  end.
Definition ex20_D2R (cand : N) (dets : list N) : Q :=
  match cand, last dets 0 with 3, 1 => 3 # 4 | _, _ => 1 # 4 end.
Definition ex20_cfg (t : Constraints.table) : cfg := {| max_idle := 2; hist_len := 2; shards := 1; thr := 300000%Z; table := t |}.
Definition ex20_D (u : N) : detection := {| d_uid := u; d_custom := None |}.
Definition ex20_ops : list top := [Predict 0 [ex20_D 1; ex20_D 2]; Predict 0 [ex20_D 3; ex20_D 4; ex20_D 5]].
Definition ex20_ids (t : Constraints.table) : list (list N) :=
  map (fun o => match o with ORecords l => map r_id l | _ => [] end)
      (fst (trun ex20_G ex20_D2R best_matching (ex20_cfg t) ex20_ops)).

Example c20t_nonvacuous :
  ex20_ids [] = [[1; 2]; [1; 2; 3]]
  /\ ex20_ids [(1, (2 # 1)%Q)] = ex20_ids []                    (* non-binding: no-op *)
  /\ ex20_ids [(1, (1 # 2)%Q)] = [[1; 2]; [3; 2; 1]]            (* binding: 3 may not continue 1 any more: it starts track 3 *)
  /\ trun ex20_G ex20_D2R best_matching (unconstrained (ex20_cfg [(1, (2 # 1)%Q)])) ex20_ops
     = trun ex20_G ex20_D2R best_matching (ex20_cfg []) ex20_ops.
Proof. vm_compute. repeat split; reflexivity. Qed.
