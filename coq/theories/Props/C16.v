(* C16 - Feature packing and feature distances.  Property theorems only; proofs live in Proofs/FeatureProofs.v.

   Packing theorems hold for EVERY carrier type with a zero (so also for f32 bit patterns: packing does no
   arithmetic) and EVERY length - proved by induction on chunks of eight, not by a sweep over lengths.
   Distance theorems: over exact rationals (Qops, equality is Qeq; closed under the global context) the packed
   functions equal the textbook sums; over the reals (Rops; Stdlib Reals, hence its classical axioms
   ClassicalDedekindReals.sig_not_dec, ClassicalDedekindReals.sig_forall_dec,
   FunctionalExtensionality.functional_extensionality_dep and, where Print Assumptions lists it,
   Classical_Prop.classic) euclid = sqrt o sqdist and cosine = dot / (sqrt norm2 * sqrt norm2) satisfy the
   metric laws.  What is NOT proved: the same laws for the f32 SIMD arithmetic of the implementation (they hold
   only up to rounding; observed by tools/props/c16.py under a stated tolerance) - the "f32 partial" of the design. *)
From Coq Require Import List Arith NArith ZArith QArith Bool Reals.
From Similari Require Import Base.Num Model.Feature Proofs.FeatureProofs.
From SimilariGen Require Import Consts.
Import ListNotations.
Close Scope Q_scope.
Close Scope R_scope.

(* ---- packing: every carrier, every length ---- *)

(* the chunk size of the model (blocks are 8-tuples) is the constant translated from src/track.rs on every run *)
Theorem lanes_is_eight : FEATURE_LANES_SIZE = 8%N /\ LANES = 8.
Proof. split; reflexivity. Qed.

(* from_vec followed by Vec::from_vec returns the values followed by zeros:
   pad 0 = 8 (the empty vector yields one all-zero block), pad n = (8 - n mod 8) mod 8 otherwise *)
Theorem unpack_pack : forall (A : Type) (z : A) (v : list A),
    unpack A (pack A z v) = v ++ repeat z (pad (length v)).
Proof. exact unpack_pack_lemma. Qed.

(* number of blocks: packed_len 0 = 1, packed_len n = (n + 7) / 8 otherwise *)
Theorem pack_length : forall (A : Type) (z : A) (v : list A),
    length (pack A z v) = packed_len (length v).
Proof. exact pack_length_lemma. Qed.

(* the unpacked length is a multiple of eight and at most eight zeros are appended *)
Theorem padded_to_multiple_of_eight : forall (A : Type) (v : list A),
    (length v + pad (length v)) mod 8 = 0 /\ pad (length v) <= 8.
Proof. exact padded_length_multiple_of_8. Qed.

(* the loop of from_vec computes "cut into eights, pad the last one" *)
Theorem pack_is_chunking : forall (A : Type) (z : A) (v : list A),
    pack A z v = match v with [] => [zero_block A z] | _ => chunks A z v end.
Proof. exact pack_spec. Qed.

(* ---- distances over exact rationals: packed = textbook ---- *)

Open Scope Q_scope.

(* on the common packed prefix of the zero-padded vectors (q_sqdist / q_dot stop at the shorter argument) *)
Theorem sqdist_packed_eq_scalar : forall u v : list Q,
    sqdist Qops (pack Q 0 u) (pack Q 0 v) == q_sqdist (zpadQ u) (zpadQ v).
Proof. exact sqdist_packed_Q. Qed.

Theorem dot_packed_eq_scalar : forall u v : list Q,
    dot Qops (pack Q 0 u) (pack Q 0 v) == q_dot (zpadQ u) (zpadQ v).
Proof. exact dot_packed_Q. Qed.

Theorem norm2_packed_eq_scalar : forall (len : nat) (u : list Q),
    norm2 Qops len (pack Q 0 u) == q_dot (firstn (8 * len) (zpadQ u)) (firstn (8 * len) (zpadQ u)).
Proof. exact norm2_packed_Q. Qed.

(* vectors of equal length: exactly the textbook sums over the original vectors; padding contributes nothing *)
Theorem sqdist_packed_eq_scalar_same_length : forall u v : list Q, length u = length v ->
    sqdist Qops (pack Q 0 u) (pack Q 0 v) == q_sqdist u v.
Proof. exact sqdist_packed_same_len_Q. Qed.

Theorem dot_packed_eq_scalar_same_length : forall u v : list Q, length u = length v ->
    dot Qops (pack Q 0 u) (pack Q 0 v) == q_dot u v.
Proof. exact dot_packed_same_len_Q. Qed.

Theorem norm2_packed_eq_scalar_same_length : forall u v : list Q, length u = length v ->
    norm2 Qops (common_len Qops (pack Q 0 u) (pack Q 0 v)) (pack Q 0 u) == q_dot u u.
Proof. exact norm2_packed_same_len_Q. Qed.

Close Scope Q_scope.

(* ---- the real-number reading: euclid = sqrt o sqdist, cosine = dot / (sqrt norm2 * sqrt norm2) ---- *)

Open Scope R_scope.

Theorem euclid_packed_is_textbook : forall u v : list R, length u = length v ->
    euclid (pack R 0 u) (pack R 0 v) = sqrt (r_sqdist u v).
Proof. exact euclid_packed_same_len. Qed.

(* vectors of different lengths: the textbook sum over the common packed prefix of the zero-extended vectors
   (zpadR u = u ++ zeros up to the packed length; r_sqdist stops at the shorter argument) *)
Theorem euclid_packed_on_common_prefix : forall u v : list R,
    euclid (pack R 0 u) (pack R 0 v) = sqrt (r_sqdist (zpadR u) (zpadR v)).
Proof. exact euclid_packed_general. Qed.

Theorem cosine_packed_is_textbook : forall u v : list R, length u = length v ->
    cosine (pack R 0 u) (pack R 0 v) = r_dot u v / (sqrt (r_norm2 u) * sqrt (r_norm2 v)).
Proof. exact cosine_packed_same_len. Qed.

(* Euclidean distance: symmetric and zero on identical arguments for ALL packed features (any lengths) *)
Theorem euclid_sym : forall f1 f2 : list (block8 R), euclid f1 f2 = euclid f2 f1.
Proof. exact euclid_sym_lemma. Qed.

Theorem euclid_refl_zero : forall f : list (block8 R), euclid f f = 0.
Proof. exact euclid_refl_lemma. Qed.

(* triangle inequality (vectors of one length), through Cauchy-Schwarz for lists *)
Theorem cauchy_schwarz_lists : forall u v : list R, r_dot u v * r_dot u v <= r_norm2 u * r_norm2 v.
Proof. exact cauchy_schwarz. Qed.

Theorem euclid_triangle : forall u v w : list R, length u = length v -> length v = length w ->
    euclid (pack R 0 u) (pack R 0 w) <= euclid (pack R 0 u) (pack R 0 v) + euclid (pack R 0 v) (pack R 0 w).
Proof. exact euclid_triangle_lemma. Qed.

(* cosine similarity; "non-zero vector" is 0 < r_norm2 u, i.e. some component is not 0 (nonzero_vector) *)
Theorem nonzero_vector : forall u : list R, 0 < r_norm2 u <-> exists x, In x u /\ x <> 0.
Proof. exact r_norm2_pos_iff. Qed.

Theorem cosine_sym : forall f1 f2 : list (block8 R), cosine f1 f2 = cosine f2 f1.
Proof. exact cosine_sym_lemma. Qed.

Theorem cosine_range : forall u v : list R, length u = length v -> 0 < r_norm2 u -> 0 < r_norm2 v ->
    -1 <= cosine (pack R 0 u) (pack R 0 v) <= 1.
Proof. exact cosine_range_lemma. Qed.

Theorem cosine_parallel : forall (k : R) (u : list R), 0 < k -> 0 < r_norm2 u ->
    cosine (pack R 0 u) (pack R 0 (scale k u)) = 1.
Proof. exact cosine_parallel_lemma. Qed.

Theorem cosine_opposite : forall (k : R) (u : list R), k < 0 -> 0 < r_norm2 u ->
    cosine (pack R 0 u) (pack R 0 (scale k u)) = -1.
Proof. exact cosine_opposite_lemma. Qed.

Theorem cosine_scale_invariant : forall (a b : R) (u v : list R),
    length u = length v -> 0 < a -> 0 < b -> 0 < r_norm2 u -> 0 < r_norm2 v ->
    cosine (pack R 0 (scale a u)) (pack R 0 (scale b v)) = cosine (pack R 0 u) (pack R 0 v).
Proof. exact cosine_scale_invariant_lemma. Qed.

Close Scope R_scope.

(* Non-vacuity: the repository's unit tests (conv_tests, euclidean_distances, cosine_distances), on bit patterns
   resp. exact rationals, plus the three packing regimes (empty, exact multiple of eight, one over). *)
Example c16_nonvacuous :
  run_pack [0; 1045220557; 1050253722]%N
  = ([[0; 1045220557; 1050253722; 0; 0; 0; 0; 0]%N], [0; 1045220557; 1050253722; 0; 0; 0; 0; 0]%N)
  /\ run_pack [] = ([[0; 0; 0; 0; 0; 0; 0; 0]%N], [0; 0; 0; 0; 0; 0; 0; 0]%N)
  /\ length (fst (run_pack [1; 2; 3; 4; 5; 6; 7; 8]%N)) = 1
  /\ length (fst (run_pack [1; 2; 3; 4; 5; 6; 7; 8; 9]%N)) = 2
  /\ run_dist [1; 0; 0]%Q [0; 1; 0]%Q = (2, 0, 1, 1)%Q
  /\ run_dist [1; 0; 0]%Q [-1; 0; 0]%Q = (4, -1, 1, 1)%Q.
Proof. repeat split; vm_compute; reflexivity. Qed.
