(* Small toolkit for reasoning about the Qops instance of NumOps (Base/Num.v): booleans -> Prop, elimination of
   Qred / Qabsb / Qmaxb / Qminb, case analysis on comparisons. Shared by the lemma files about translated code
   (Proofs/VisualGateProofs.v, NmsScalarProofs.v, OwnAreaScalarProofs.v, TrackerScalarProofs.v, BoxExtraProofs.v).
   NOTE: lra on Q comes from Lqa (or Psatz), not from Lra. *)
From Coq Require Import ZArith NArith QArith Qabs Bool Lqa.
From Similari Require Import Base.Num.
Open Scope Q_scope.

Lemma Qltb_iff a b : Qltb a b = true <-> a < b.
Proof. unfold Qltb. rewrite negb_true_iff. split.
  - intro H. apply Qnot_le_lt. intro L. apply Qle_bool_iff in L. congruence.
  - intro H. destruct (Qle_bool b a) eqn:E; [|reflexivity]. apply Qle_bool_iff in E. exfalso. apply (Qlt_not_le _ _ H E). Qed.
Lemma Qltb_false_iff a b : Qltb a b = false <-> b <= a.
Proof. unfold Qltb. rewrite negb_false_iff. apply Qle_bool_iff. Qed.
Lemma Qleb_false_iff a b : Qle_bool a b = false <-> b < a.
Proof. rewrite <- Qltb_iff. unfold Qltb. rewrite negb_true_iff. tauto. Qed.
Lemma Qabsb_spec x : (0 <= x /\ Qabsb x == x) \/ (x < 0 /\ Qabsb x == - x).
Proof. unfold Qabsb. destruct (Qle_bool 0 x) eqn:E.
  - left. split; [apply Qle_bool_iff; exact E | reflexivity].
  - right. split; [apply Qleb_false_iff; exact E | reflexivity]. Qed.
Lemma Qmaxb_spec a b : (a <= b /\ Qmaxb a b == b) \/ (b < a /\ Qmaxb a b == a).
Proof. unfold Qmaxb. destruct (Qle_bool a b) eqn:E.
  - left. split; [apply Qle_bool_iff; exact E | reflexivity].
  - right. split; [apply Qleb_false_iff; exact E | reflexivity]. Qed.
Lemma Qminb_spec a b : (a <= b /\ Qminb a b == a) \/ (b < a /\ Qminb a b == b).
Proof. unfold Qminb. destruct (Qle_bool a b) eqn:E.
  - left. split; [apply Qle_bool_iff; exact E | reflexivity].
  - right. split; [apply Qleb_false_iff; exact E | reflexivity]. Qed.
Lemma Qabsb_Qabs x : Qabsb x == Qabs x.
Proof. destruct (Qabsb_spec x) as [[H E]|[H E]]; rewrite E.
  - symmetry. apply Qabs_pos. exact H.
  - symmetry. apply Qabs_neg. apply Qlt_le_weak. exact H. Qed.
Lemma bool_eq_iff (a b : bool) : (a = true <-> b = true) -> a = b.
Proof. destruct a, b; intuition congruence. Qed.
Lemma Qsqr_nonneg_mul (x : Q) : 0 <= x * x.
Proof. nra. Qed.
Lemma div_pos_facts (k c : Q) : 0 < c -> (0 < k / c <-> 0 < k) /\ (k == 0 -> k / c == 0).
Proof.
  intro Hc. split; [split; intro G|intro G].
  - assert (E : k == (k / c) * c) by (field; lra). rewrite E. apply Qmult_lt_0_compat; assumption.
  - apply Qlt_shift_div_l; [exact Hc | lra].
  - rewrite G. field. lra.
Qed.

(* unfold the operations of the Qops instance *)
Ltac qops := cbn [T zero one add sub mul div opp abs max min leb ltb floor of_Q Qops negb] in *; change (T Qops) with Q in *.
(* booleans to propositions (goal / hypothesis) *)
Ltac b2p := repeat first
  [ rewrite andb_true_iff | rewrite andb_false_iff | rewrite orb_true_iff | rewrite negb_true_iff | rewrite negb_false_iff
  | rewrite Qltb_iff | rewrite Qltb_false_iff | rewrite Qle_bool_iff | rewrite Qleb_false_iff
  | rewrite N.leb_le | rewrite N.ltb_lt | rewrite N.eqb_eq | rewrite N.leb_gt | rewrite N.ltb_ge | rewrite N.eqb_neq ].
Ltac b2p_in H := repeat first
  [ rewrite andb_true_iff in H | rewrite andb_false_iff in H | rewrite orb_true_iff in H | rewrite negb_true_iff in H | rewrite negb_false_iff in H
  | rewrite Qltb_iff in H | rewrite Qltb_false_iff in H | rewrite Qle_bool_iff in H | rewrite Qleb_false_iff in H
  | rewrite N.leb_le in H | rewrite N.ltb_lt in H | rewrite N.eqb_eq in H | rewrite N.leb_gt in H | rewrite N.ltb_ge in H | rewrite N.eqb_neq in H ].
(* the outcome E : c = true/false of a case split, as a proposition *)
Ltac prop_of E :=
  lazymatch type of E with
  | Qltb _ _ = true => apply Qltb_iff in E
  | Qltb _ _ = false => apply Qltb_false_iff in E
  | Qle_bool _ _ = true => apply Qle_bool_iff in E
  | Qle_bool _ _ = false => apply Qleb_false_iff in E
  | N.leb _ _ = true => apply N.leb_le in E
  | N.leb _ _ = false => apply N.leb_gt in E
  | N.ltb _ _ = true => apply N.ltb_lt in E
  | N.ltb _ _ = false => apply N.ltb_ge in E
  | N.eqb _ _ = true => apply N.eqb_eq in E
  | N.eqb _ _ = false => apply N.eqb_neq in E
  | _ => idtac
  end.
(* case analysis on every comparison under an [if] (goal / hypothesis) *)
Ltac cases_if := repeat match goal with
  | |- context [if ?c then _ else _] => let E := fresh "E" in destruct c eqn:E; prop_of E
  end.
Ltac cases_if_in H := repeat match type of H with
  | context [if ?c then _ else _] => let E := fresh "E" in destruct c eqn:E; prop_of E
  end.
(* name every [Qred x] as a variable r with r == x; same for Qabsb / Qmaxb / Qminb with their defining disjunction *)
Ltac name_red := repeat match goal with
  | |- context [Qred ?x] => let H := fresh "Hred" in pose proof (Qred_correct x) as H; generalize dependent (Qred x); intros
  | _ : context [Qred ?x] |- _ => let H := fresh "Hred" in pose proof (Qred_correct x) as H; generalize dependent (Qred x); intros
  end.
Ltac name_abs := repeat match goal with
  | |- context [Qabsb ?x] => let H := fresh "Habs" in pose proof (Qabsb_spec x) as H; generalize dependent (Qabsb x); intros
  | _ : context [Qabsb ?x] |- _ => let H := fresh "Habs" in pose proof (Qabsb_spec x) as H; generalize dependent (Qabsb x); intros
  | |- context [Qabs ?x] => let H := fresh "Habs" in pose proof (Qabsb_spec x) as H; rewrite (Qabsb_Qabs x) in H; generalize dependent (Qabs x); intros
  | _ : context [Qabs ?x] |- _ => let H := fresh "Habs" in pose proof (Qabsb_spec x) as H; rewrite (Qabsb_Qabs x) in H; generalize dependent (Qabs x); intros
  end.
Ltac name_minmax := repeat match goal with
  | |- context [Qmaxb ?a ?b] => let H := fresh "Hmax" in pose proof (Qmaxb_spec a b) as H; generalize dependent (Qmaxb a b); intros
  | _ : context [Qmaxb ?a ?b] |- _ => let H := fresh "Hmax" in pose proof (Qmaxb_spec a b) as H; generalize dependent (Qmaxb a b); intros
  | |- context [Qminb ?a ?b] => let H := fresh "Hmin" in pose proof (Qminb_spec a b) as H; generalize dependent (Qminb a b); intros
  | _ : context [Qminb ?a ?b] |- _ => let H := fresh "Hmin" in pose proof (Qminb_spec a b) as H; generalize dependent (Qminb a b); intros
  end.
Ltac qlin := name_abs; name_minmax; name_red; lra.
