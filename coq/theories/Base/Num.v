(* Arithmetic-parametric kernels (DESIGN.md section 2.1): one Gallina definition, several arithmetics.
   Qops : exact rationals (theorems, exact correspondence);  Fops : binary64 primitive floats (long runs). *)
From Coq Require Import ZArith QArith Qabs Qminmax Qround Bool Floats.

Record NumOps := {
  T : Type;
  zero : T; one : T;
  add : T -> T -> T; sub : T -> T -> T; mul : T -> T -> T; div : T -> T -> T;
  opp : T -> T; abs : T -> T;
  max : T -> T -> T; min : T -> T -> T;
  leb : T -> T -> bool; ltb : T -> T -> bool;
  floor : T -> T;
  of_Q : Q -> T
}.

Definition Qltb (a b : Q) : bool := negb (Qle_bool b a).
Definition Qmaxb (a b : Q) : Q := if Qle_bool a b then b else a.
Definition Qminb (a b : Q) : Q := if Qle_bool a b then a else b.
Definition Qabsb (a : Q) : Q := if Qle_bool 0 a then a else Qopp a.

Definition Qops : NumOps := {|
  T := Q; zero := 0%Q; one := 1%Q;
  add := fun a b => Qred (Qplus a b); sub := fun a b => Qred (Qminus a b);
  mul := fun a b => Qred (Qmult a b); div := fun a b => Qred (Qdiv a b);
  opp := Qopp; abs := Qabsb; max := Qmaxb; min := Qminb;
  leb := Qle_bool; ltb := Qltb;
  floor := fun a => inject_Z (Qfloor a);
  of_Q := fun q => q
|}.

(* binary64; of_Q rounds numerator and denominator separately (exact for dyadic literals of moderate size,
   which is all the generated code and the harness use). floor is not provided natively; it goes through Z. *)
Definition float_of_Z (z : Z) : float :=
  match z with
  | Z0 => PrimFloat.zero
  | Zpos p => SF2Prim (binary_normalize prec emax (Zpos p) 0 false)
  | Zneg p => PrimFloat.opp (SF2Prim (binary_normalize prec emax (Zpos p) 0 false))
  end.

Definition float_floor (f : float) : float :=
  (* floor via round-trip through the specification float; only used on moderate magnitudes *)
  match Prim2SF f with
  | S754_finite s m e =>
      let z := (if s then Z.opp else (fun x => x))
                 (match e with
                  | Z0 => Zpos m
                  | Zpos p => Zpos m * 2 ^ Zpos p
                  | Zneg p => Zpos m / 2 ^ Zpos p
                  end)%Z in
      (* for negative non-integers Z division already floors the magnitude: adjust *)
      let fz := float_of_Z z in
      if s then (if PrimFloat.eqb fz f then fz else PrimFloat.sub fz PrimFloat.one) else fz
  | _ => f
  end.

Definition Fops : NumOps := {|
  T := float; zero := PrimFloat.zero; one := PrimFloat.one;
  add := PrimFloat.add; sub := PrimFloat.sub; mul := PrimFloat.mul; div := PrimFloat.div;
  opp := PrimFloat.opp; abs := PrimFloat.abs;
  max := fun a b => if PrimFloat.leb a b then b else a;
  min := fun a b => if PrimFloat.leb a b then a else b;
  leb := PrimFloat.leb; ltb := PrimFloat.ltb;
  floor := float_floor;
  of_Q := fun q => PrimFloat.div (float_of_Z (Qnum q)) (float_of_Z (Zpos (Qden q)))
|}.
