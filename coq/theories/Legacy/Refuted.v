(* Legacy/Refuted.v - faithful models of three PRE-FIX shapes of /repo and witnesses that they violate the
   statements of C11 / C09 (DESIGN.md section 6).  Documentation + regression only: nothing under Props/ depends
   on this file.  The witnesses are also the replay inputs of the corresponding re-introduced defects
   (`git -C /repo show c6a2a8a e99a3b5 423498e`).

   1. Track::merge before "fix: Track::merge extends the merge history once and keeps it on failure":
      the history handed to optimize and stored was recomputed PER CLASS - with history enabled
      `self.merge_history ++ other.merge_history`, otherwise `take(&mut self.merge_history)` - and stored back
      only when the class was merged; an optimize failure restored attributes / observations / metric only.
   2. FutureMergeResponse::get before "fix: FutureMergeResponse::get returns the merge result of the worker":
      it returned Ok(()) whenever the channel delivered anything.
   3. TrackStore::add before "fix: TrackStore::add creates a missing track through the track builder":
      the missing track was assembled inline (no optimize, Observation(None, None) stored, no notification).

   Every definition below is the fixed definition of Model/Track.v / Model/Store.v with exactly that change. *)
From Coq Require Import List NArith Bool Arith Lia.
From Similari Require Import Model.Track Model.Store Proofs.TrackProofs Proofs.StoreProofs.
Import ListNotations.

Section LegacyModels.
  Variables TA UPD OA FT MS W LQ : Type.
  Notation track := (track TA OA FT MS).
  Notation observation := (observation OA FT).
  Notation obsdb := (obsdb OA FT).
  Notation sharded := (sharded TA OA FT MS).

  Variable cb_apply : W -> UPD -> TA -> W * bool * TA.
  Variable cb_merge : W -> TA -> TA -> W * bool * TA.
  Variable cb_optimize :
    W -> MS -> N -> list N -> TA -> list observation -> nat -> bool -> W * bool * MS * TA * list observation.
  Variable dflt_metric : MS.
  Variable dflt_attrs : TA.

  Notation find := (find TA OA FT MS).
  Notation sset := (sset TA OA FT MS).
  Notation sdel := (sdel TA OA FT MS).

  (* ---- 1. Track::merge, legacy ---------------------------------------------------------------- *)
  Fixpoint merge_loop_legacy (w : W) (self other : track) (classes : list N) (merge_history_flag : bool)
           (last_attributes : TA) (last_observations : obsdb) (last_metric : MS)
    : W * result unit * track * nat :=
    match classes with
    | [] => (w, Ok tt, self, 1%nat)
    | cls :: rest =>
        let step :=
          match alookup cls (obs self), alookup cls (obs other) with
          | Some dest_observations, Some src_observations =>
              Some (aset cls (dest_observations ++ src_observations) (obs self), length dest_observations)
          | None, Some src_observations => Some (aset cls src_observations (obs self), 0%nat)
          | Some dest_observations, None => Some (obs self, length dest_observations)
          | None, None => None
          end in
        (* let merge_history = if merge_history { self ++ other } else { take(&mut self.merge_history) } *)
        let '(merge_history, self0) :=
          if merge_history_flag then (hist self ++ hist other, self) else (hist self, set_hist self []) in
        match step with
        | None => merge_loop_legacy w self0 other rest merge_history_flag last_attributes last_observations last_metric
        | Some (obs1, prev_length) =>
            let v := match alookup cls obs1 with Some v => v | None => [] end in
            let '(w1, ok, ms', a', v') :=
              cb_optimize w (mstate self0) cls merge_history (attrs self0) v prev_length true in
            let self1 := set_mstate (set_attrs (set_obs self0 (aset cls v' obs1)) a') ms' in
            if negb ok then
              (* attributes, observations, metric are restored; the merge history is not *)
              (w1, Err EOptimize,
               set_mstate (set_obs (set_attrs self1 last_attributes) last_observations) last_metric, 0%nat)
            else
              (* self.merge_history = merge_history *)
              merge_loop_legacy w1 (set_hist self1 merge_history) other rest merge_history_flag
                                last_attributes last_observations last_metric
        end
    end.

  Definition merge_legacy (w : W) (self other : track) (classes : list N) (merge_history : bool)
    : W * result unit * track * nat :=
    let last_attributes := attrs self in
    let '(w1, ok, a') := cb_merge w (attrs self) (attrs other) in
    let self1 := set_attrs self a' in
    if negb ok then (w1, Err EAttrMerge, set_attrs self1 last_attributes, 0%nat)
    else merge_loop_legacy w1 self1 other classes merge_history last_attributes (obs self1) (mstate self1).

  (* ---- 2. FutureMergeResponse::get, legacy: the worker's answer is dropped ---------------------- *)
  Definition future_get_legacy (fut : result unit) : result unit := Ok tt.

  Definition merge_external_legacy (w : W) (st : sharded) (dest_id : N) (src : track)
             (classes : option (list N)) (mh : bool) : W * result unit * sharded * nat :=
    let '(w1, fut, st1, n) :=
      g_merge_external_noblock TA OA FT MS W cb_merge cb_optimize sharded find sset w st dest_id src classes mh in
    (w1, future_get_legacy fut, st1, n).

  Definition merge_owned_legacy (w : W) (st : sharded) (dest_id src_id : N) (classes : option (list N))
             (remove_src_if_ok mh : bool) : W * result (option track) * sharded * nat :=
    let (srcs, st1) := g_fetch TA OA FT MS sharded find sdel st [src_id] in
    match srcs with
    | [] => (w, Err (ENotFound src_id), st1, 0%nat)
    | src :: _ =>
        let '(w1, r, st2, n) := merge_external_legacy w st1 dest_id src classes mh in
        match r with
        | Ok _ =>
            if negb remove_src_if_ok then (w1, Ok None, snd (g_add_track TA OA FT MS sharded find sset st2 src), n)
            else (w1, Ok (Some src), st2, n)
        | Err e => (w1, Err e, snd (g_add_track TA OA FT MS sharded find sset st2 src), n)
        end
    end.

  (* ---- 3. TrackStore::add, legacy: the missing track is assembled inline ------------------------- *)
  Definition add_legacy (w : W) (st : sharded) (track_id cls : N) (fa : option OA) (f : option FT) (u : option UPD)
    : W * result unit * sharded * nat :=
    match find st track_id with
    | None =>
        (* Track { attributes: default, track_id, observations: {cls: [Observation(fa, f)]}, metric, merge_history: [id] } *)
        let t := mkTrack dflt_attrs track_id [(cls, [(fa, f)])] dflt_metric [track_id] in
        match u with
        | Some upd =>
            let '(w1, ok, a') := cb_apply w upd (attrs t) in
            if negb ok then (w1, Err EApply, st, 0%nat)        (* t.update_attributes(..)? *)
            else (w1, Ok tt, sset st track_id (set_attrs t a'), 0%nat)
        | None => (w, Ok tt, sset st track_id t, 0%nat)
        end
    | Some t =>
        let '(w1, r, t1, n) := add_observation cb_apply cb_optimize w t cls fa f u in
        (w1, r, sset st track_id t1, n)
    end.
End LegacyModels.

(* ================================================================================================== *)
(* Witnesses, on the scripted algebra of the correspondence harness (Module Alg of Model/Store.v).       *)

Import Alg.
Open Scope N_scope.

Notation merge_fixed := (@merge TA OA FT MS W amerge optimize).
Notation merge_old := (merge_legacy TA OA FT MS W amerge optimize).
Notation requested := (requested_present TA OA FT MS).

Definition w0 : W := plan [] [] [].
Definition trk_of (id : N) (o : Track.obsdb OA FT) : trk := mkTrack (0, 0, 0) id o (0, 0) [id].

(* the conclusion of Props/C11.merge_atomic, as a predicate on one call *)
Definition merge_atomic_holds (mrg : W -> trk -> trk -> list N -> bool -> W * result unit * trk * nat)
           (w : W) (self other : trk) (classes : list N) (mh : bool) : Prop :=
  let '(_, r, t', n) := mrg w self other classes mh in
  match r with
  | Err _ => t' = self /\ n = 0%nat
  | Ok _ => n = 1%nat /\ tid t' = tid self /\
            hist t' = if mh && requested self other classes then hist self ++ hist other else hist self
  end.

(* the fixed model satisfies it on every input (this is C11.merge_atomic) ... *)
Lemma merge_atomic_holds_fixed : forall w self other classes mh, merge_atomic_holds merge_fixed w self other classes mh.
Proof.
  intros w self other classes mh. unfold merge_atomic_holds.
  destruct (merge_fixed w self other classes mh) as [[[w' r] t'] n] eqn:E.
  exact (merge_spec_lemma TA OA FT MS W amerge optimize _ _ _ _ _ _ _ _ _ E).
Qed.

(* ... the legacy model does not: *)

(* history disabled, the requested class is in neither track: the history is EMPTIED (`take`) *)
Lemma merge_history_emptied_refuted :
  exists w self other classes mh, ~ merge_atomic_holds merge_old w self other classes mh
    /\ (let '(_, r, t', _) := merge_old w self other classes mh in r = Ok tt /\ hist self = [10] /\ hist t' = []).
Proof.
  exists w0, (trk_of 10 []), (trk_of 20 []), [1], false. split.
  - unfold merge_atomic_holds. vm_compute. intros (_ & _ & H). discriminate H.
  - vm_compute. repeat split; reflexivity.
Qed.

(* history enabled, two classes merged: the source history is appended once PER CLASS *)
Lemma merge_history_doubled_refuted :
  exists w self other classes mh, ~ merge_atomic_holds merge_old w self other classes mh
    /\ (let '(_, r, t', _) := merge_old w self other classes mh in r = Ok tt /\ hist t' = [10; 20; 20]).
Proof.
  exists w0, (trk_of 10 [(1, [(Some 3, None)]); (2, [(Some 4, None)])]),
         (trk_of 20 [(1, [(Some 1, None)]); (2, [(Some 2, None)])]), [1; 2], true. split.
  - unfold merge_atomic_holds. vm_compute. intros (_ & _ & H). discriminate H.
  - vm_compute. repeat split; reflexivity.
Qed.

(* optimize fails at the SECOND class: Err, but the history extended at the first class stays *)
Lemma merge_history_not_restored_refuted :
  exists w self other classes mh, ~ merge_atomic_holds merge_old w self other classes mh
    /\ (let '(_, r, t', _) := merge_old w self other classes mh in
        r = Err EOptimize /\ hist self = [10] /\ hist t' = [10; 20] /\ attrs t' = attrs self /\ obs t' = obs self).
Proof.
  exists (plan [] [] [1]), (trk_of 10 [(1, [(Some 3, None)]); (2, [(Some 4, None)])]),
         (trk_of 20 [(1, [(Some 1, None)]); (2, [(Some 2, None)])]), [1; 2], true. split.
  - unfold merge_atomic_holds. vm_compute. intros (H & _). discriminate H.
  - vm_compute. repeat split; reflexivity.
Qed.

(* ---- store level ---------------------------------------------------------------------------------- *)

Notation find_a := (find TA OA FT MS).
Notation wfn_a := (wfn TA OA FT MS).
Notation sstep_a := (sstep TA UPD OA FT MS W LQ apply amerge optimize baked lookup dflt_metric dflt_attrs).
Notation srun_a := (srun TA UPD OA FT MS W LQ apply amerge optimize baked lookup dflt_metric dflt_attrs).
Notation empty_a := (empty_store TA OA FT MS).
Notation merge_external_old := (merge_external_legacy TA OA FT MS W amerge optimize).
Notation merge_owned_old := (merge_owned_legacy TA OA FT MS W amerge optimize).
Notation add_old := (add_legacy TA UPD OA FT MS W apply optimize dflt_metric dflt_attrs).
Notation build_a := (@build TA UPD OA FT MS W apply optimize).

(* a reachable two-shard store holding track 2 (one observation of class 1) *)
Definition st2 : sharded TA OA FT MS :=
  let '(_, _, st) := srun_a w0 (empty_a 2) [Add 2 1 (Some 4) None None] in st.

Lemma st2_wfn : wfn_a 2 st2.
Proof.
  unfold st2. destruct (srun_a w0 (empty_a 2) [Add 2 1 (Some 4) None None]) as [[w out] st] eqn:E.
  eapply srun_wfn; [|exact E]. apply wfn_empty. lia.
Qed.

(* C09.merge_reports_failure says: destination missing => Err (ENotFound dst), store unchanged.
   Legacy: merge_external to a destination that is not stored reports Ok. *)
Lemma merge_reports_failure_refuted :
  exists n st dst src cls mh, wfn_a n st /\ find_a st dst = None /\
    (let '(_, r, st', _) := merge_external_old w0 st dst src cls mh in r = Ok tt /\ r <> Err (ENotFound dst) /\ st' = st).
Proof.
  exists 2%nat, st2, 9, (trk_of 3 [(1, [(Some 1, None)])]), None, true.
  split; [exact st2_wfn|]. split; [vm_compute; reflexivity|].
  vm_compute. repeat split; try reflexivity. discriminate.
Qed.

(* C11.merge_owned_failure_keeps_both / C09.merge_changes_only_dest say: an owned merge whose destination is
   missing is an Err and every track stays stored.  Legacy with remove_src_if_ok = true: Ok(Some(src)) and the
   source is GONE although nothing was merged anywhere. *)
Lemma merge_owned_source_lost_refuted :
  exists n st dst src_id cls mh, wfn_a n st /\ find_a st dst = None /\ find_a st src_id <> None /\
    (let '(_, r, st', _) := merge_owned_old w0 st dst src_id cls true mh in
     is_ok r = true /\ find_a st' src_id = None /\ find_a st' dst = None) /\
    (* the fixed model on the same input: Err, source still stored *)
    (let '(_, r, st', _) := sstep_a w0 st (MergeOwned dst src_id cls true mh) in
     r = ROwned (Err (ENotFound dst)) /\ find_a st' src_id = find_a st src_id).
Proof.
  exists 2%nat, st2, 9, 2, None, true.
  split; [exact st2_wfn|]. split; [vm_compute; reflexivity|]. split; [vm_compute; discriminate|].
  split; vm_compute; repeat split; reflexivity.
Qed.

(* C09.add_creates_like_builder says: add on a missing id = build with the store's builder, then add_track.
   Legacy: the stored track has not been through optimize (metric state and attributes differ) and nothing was
   notified (0 instead of 2). *)
Lemma add_creates_like_builder_refuted :
  exists n st id cls fa f u, wfn_a n st /\ find_a st id = None /\
    add_old w0 st id cls fa f u <>
    (let '(w1, r, k) := build_a w0 id dflt_metric dflt_attrs [(cls, fa, f, u)] in
     match r with
     | Ok t => let '(_, _, st1, _) := sstep_a w1 st (AddTrack t) in (w1, Ok tt, st1, k)
     | Err e => (w1, Err e, st, k)
     end).
Proof.
  exists 2%nat, st2, 1, 1, (Some 4), None, None.
  split; [exact st2_wfn|]. split; [vm_compute; reflexivity|].
  vm_compute. intros H. inversion H.
Qed.

(* the same input with an observation that has neither attributes nor feature: legacy stores Observation(None, None),
   the builder stores no observation at all *)
Lemma add_creates_like_builder_none_none_refuted :
  exists n st id cls, wfn_a n st /\ find_a st id = None /\
    (let '(_, _, st', _) := add_old w0 st id cls None None None in
     option_map (fun t => obs t) (find_a st' id) = Some [(cls, [(None, None)])]) /\
    (let '(_, _, st', _) := sstep_a w0 st (Add id cls None None None) in
     option_map (fun t => obs t) (find_a st' id) = Some []).
Proof.
  exists 2%nat, st2, 1, 1.
  split; [exact st2_wfn|]. split; [vm_compute; reflexivity|]. split; vm_compute; reflexivity.
Qed.
